module verif/instrument

go 1.23
