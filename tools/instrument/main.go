// instrument derives instrumented copies of source files of the *current* tree.
//
//	-mode smallbuf -n N : the array length of field `buf` of type `reader` in stack/reader.go becomes N
//	-mode mapchoice     : every `for k, v := range m` whose m has map type (by go/types) in the
//	                      packages stack and internal iterates in an order owned by verifx/mc
//
// It prints {"replace": {original: copy}, "notes": [...]} for the overlay.
package main

import (
	"bytes"
	"encoding/json"
	"flag"
	"fmt"
	"go/ast"
	"go/format"
	"go/importer"
	"go/parser"
	"go/token"
	"go/types"
	"os"
	"path/filepath"
	"sort"
	"strconv"
	"strings"
)

type result struct {
	Replace map[string]string `json:"replace"`
	Notes   []string          `json:"notes"`
}

func main() {
	mode := flag.String("mode", "", "smallbuf|mapchoice")
	repo := flag.String("repo", "/repo", "repository root")
	out := flag.String("out", "", "output directory")
	n := flag.Int("n", 16, "buffer size for smallbuf")
	flag.Parse()
	res := result{Replace: map[string]string{}}
	var err error
	switch *mode {
	case "smallbuf":
		err = smallbuf(*repo, *out, *n, &res)
	case "mapchoice":
		for _, pkg := range []string{"stack", "internal"} {
			if err = mapchoice(*repo, pkg, *out, &res); err != nil {
				break
			}
		}
	default:
		err = fmt.Errorf("unknown mode %q", *mode)
	}
	if err != nil {
		fmt.Fprintln(os.Stderr, err)
		os.Exit(1)
	}
	b, _ := json.Marshal(res)
	fmt.Println(string(b))
}

func smallbuf(repo, out string, n int, res *result) error {
	dir := filepath.Join(repo, "stack")
	fset := token.NewFileSet()
	ents, err := os.ReadDir(dir)
	if err != nil {
		return err
	}
	for _, e := range ents {
		name := e.Name()
		if !strings.HasSuffix(name, ".go") || strings.HasSuffix(name, "_test.go") {
			continue
		}
		p := filepath.Join(dir, name)
		f, err := parser.ParseFile(fset, p, nil, parser.ParseComments)
		if err != nil {
			return err
		}
		done := false
		typeName := ""
		ast.Inspect(f, func(nd ast.Node) bool {
			ts, ok := nd.(*ast.TypeSpec)
			if !ok || done {
				return true
			}
			st, ok := ts.Type.(*ast.StructType)
			if !ok {
				return true
			}
			// the line reader: a struct with an io.Reader field and a fixed-size byte array
			hasReader := false
			for _, fld := range st.Fields.List {
				if se, ok := fld.Type.(*ast.SelectorExpr); ok && se.Sel.Name == "Reader" {
					if id, ok := se.X.(*ast.Ident); ok && id.Name == "io" {
						hasReader = true
					}
				}
			}
			if !hasReader {
				return true
			}
			for _, fld := range st.Fields.List {
				at, ok := fld.Type.(*ast.ArrayType)
				if !ok || at.Len == nil {
					continue
				}
				if id, ok := at.Elt.(*ast.Ident); !ok || id.Name != "byte" {
					continue
				}
				at.Len = &ast.BasicLit{Kind: token.INT, Value: strconv.Itoa(n)}
				done = true
				typeName = ts.Name.Name
				break
			}
			return false
		})
		if done {
			var buf bytes.Buffer
			if err := format.Node(&buf, fset, f); err != nil {
				return err
			}
			np := filepath.Join(out, "stack_"+name)
			if err := os.WriteFile(np, buf.Bytes(), 0o644); err != nil {
				return err
			}
			res.Replace[p] = np
			res.Notes = append(res.Notes, fmt.Sprintf("smallbuf: %s: byte array of struct %s (the one holding an io.Reader) rewritten to length %d", name, typeName, n))
			return nil
		}
	}
	return fmt.Errorf("smallbuf: no struct with an io.Reader field and a fixed-size byte array found in %s", dir)
}

const mcImport = "github.com/maruel/panicparse/v2/internal/verifx/mc"

func mapchoice(repo, pkg, out string, res *result) error {
	dir := filepath.Join(repo, pkg)
	fset := token.NewFileSet()
	ents, err := os.ReadDir(dir)
	if err != nil {
		return err
	}
	var files []*ast.File
	var paths []string
	for _, e := range ents {
		name := e.Name()
		if !strings.HasSuffix(name, ".go") || strings.HasSuffix(name, "_test.go") {
			continue
		}
		p := filepath.Join(dir, name)
		f, err := parser.ParseFile(fset, p, nil, parser.ParseComments)
		if err != nil {
			return err
		}
		if f.Name.Name == "main" || hasIgnoreTag(f) {
			continue
		}
		// Re-parse without comments: rewritten nodes would displace them.
		if f, err = parser.ParseFile(fset, p, nil, 0); err != nil {
			return err
		}
		files = append(files, f)
		paths = append(paths, p)
	}
	info := &types.Info{Types: map[ast.Expr]types.TypeAndValue{}}
	conf := types.Config{Importer: importer.ForCompiler(fset, "source", nil), Error: func(error) {}}
	old, _ := os.Getwd()
	_ = os.Chdir(dir)
	_, _ = conf.Check(pkg, fset, files, info)
	_ = os.Chdir(old)
	for i, f := range files {
		sites := 0
		var visit func(n ast.Node) bool
		visit = func(nd ast.Node) bool {
			rs, ok := nd.(*ast.RangeStmt)
			if !ok {
				return true
			}
			tv, ok := info.Types[rs.X]
			if !ok || tv.Type == nil {
				return true
			}
			if _, isMap := tv.Type.Underlying().(*types.Map); !isMap {
				return true
			}
			if rs.Tok != token.DEFINE && rs.Key != nil {
				return true // `for k = range m`: left alone (none in the tree)
			}
			pos := fset.Position(rs.Pos())
			site := fmt.Sprintf("%s:%d", filepath.Base(pos.Filename), pos.Line)
			keyName := "_"
			if id, ok := rs.Key.(*ast.Ident); ok && id.Name != "_" {
				keyName = id.Name
			}
			needVal := false
			valName := ""
			if id, ok := rs.Value.(*ast.Ident); ok && id.Name != "_" {
				needVal = true
				valName = id.Name
			}
			if needVal && keyName == "_" {
				keyName = "verifmcKey"
			}
			mexpr := rs.X
			call := &ast.CallExpr{Fun: &ast.SelectorExpr{X: ast.NewIdent("verifmc"), Sel: ast.NewIdent("Keys")},
				Args: []ast.Expr{&ast.BasicLit{Kind: token.STRING, Value: strconv.Quote(site)}, mexpr}}
			rs.X = call
			rs.Key = ast.NewIdent("_")
			rs.Value = ast.NewIdent(keyName)
			if rs.Value.(*ast.Ident).Name == "_" {
				rs.Value = nil
				rs.Key = nil
				rs.Tok = token.ILLEGAL
			} else {
				rs.Tok = token.DEFINE
			}
			if needVal {
				okName := "verifmcOK"
				pre := []ast.Stmt{
					&ast.AssignStmt{Lhs: []ast.Expr{ast.NewIdent(valName), ast.NewIdent(okName)}, Tok: token.DEFINE,
						Rhs: []ast.Expr{&ast.IndexExpr{X: mexpr, Index: ast.NewIdent(keyName)}}},
					&ast.IfStmt{Cond: &ast.UnaryExpr{Op: token.NOT, X: ast.NewIdent(okName)},
						Body: &ast.BlockStmt{List: []ast.Stmt{&ast.BranchStmt{Tok: token.CONTINUE}}}},
				}
				rs.Body.List = append(pre, rs.Body.List...)
			}
			sites++
			res.Notes = append(res.Notes, "mapchoice: "+pkg+"/"+site)
			return true
		}
		ast.Inspect(f, visit)
		if sites == 0 {
			continue
		}
		addImport(f)
		var buf bytes.Buffer
		if src, err := os.ReadFile(paths[i]); err == nil {
			for _, l := range strings.Split(string(src), "\n") {
				if strings.HasPrefix(l, "//go:build ") {
					buf.WriteString(l + "\n\n")
				}
				if strings.HasPrefix(l, "package ") {
					break
				}
			}
		}
		if err := format.Node(&buf, fset, f); err != nil {
			return err
		}
		np := filepath.Join(out, pkg+"_"+filepath.Base(paths[i]))
		if err := os.WriteFile(np, buf.Bytes(), 0o644); err != nil {
			return err
		}
		res.Replace[paths[i]] = np
	}
	sort.Strings(res.Notes)
	return nil
}

func hasIgnoreTag(f *ast.File) bool {
	for _, cg := range f.Comments {
		if cg.Pos() > f.Package {
			break
		}
		for _, c := range cg.List {
			if strings.HasPrefix(c.Text, "//go:build ignore") {
				return true
			}
		}
	}
	return false
}

func addImport(f *ast.File) {
	spec := &ast.ImportSpec{Name: ast.NewIdent("verifmc"), Path: &ast.BasicLit{Kind: token.STRING, Value: strconv.Quote(mcImport)}}
	for _, d := range f.Decls {
		if gd, ok := d.(*ast.GenDecl); ok && gd.Tok == token.IMPORT {
			gd.Specs = append(gd.Specs, spec)
			if !gd.Lparen.IsValid() {
				gd.Lparen = gd.Pos()
				gd.Rparen = gd.End()
			}
			f.Imports = append(f.Imports, spec)
			return
		}
	}
	gd := &ast.GenDecl{Tok: token.IMPORT, Specs: []ast.Spec{spec}}
	f.Decls = append([]ast.Decl{gd}, f.Decls...)
	f.Imports = append(f.Imports, spec)
}
