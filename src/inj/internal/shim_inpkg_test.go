//go:build verif

package internal

// The only file of the internal harness that binds to unexported names of package
// internal: the real process() function, the palettes and the path formats.

import (
	"io"
	"regexp"
)

func init() {
	processFn = guarded(func(in io.Reader, out io.Writer, c renderCfg, parse bool) error {
		p := &Palette{}
		if c.colour {
			p = &defaultPalette
		}
		var filter, match *regexp.Regexp
		if c.filter != "" {
			filter = regexp.MustCompile(c.filter)
		}
		if c.match != "" {
			match = regexp.MustCompile(c.match)
		}
		pf := basePath
		switch c.pf {
		case styleRel:
			pf = relPath
		case styleFull:
			pf = fullPath
		}
		return process(in, out, p, c.level, pf, parse, c.rebase, c.html, filter, match)
	})
	processKind = "in-package process()"
	processInProcess = true
}
