//go:build verif

package internal

// C16: console rendering. Generated dumps and race reports x path format x colour
// x similarity x filter/match expressions through the real process(); structural
// oracle against the library's own snapshot/aggregation (no golden strings).

import (
	"bytes"
	"context"
	"crypto/sha256"
	"fmt"
	"io"
	"os"
	"os/exec"
	"path/filepath"
	"regexp"
	"runtime/debug"
	"strings"
	"sync"
	"testing"
	"time"
	"unicode/utf8"

	"github.com/maruel/panicparse/v2/internal/verifx/gen"
	"github.com/maruel/panicparse/v2/internal/verifx/h"
	"github.com/maruel/panicparse/v2/stack"
)

var reANSI = regexp.MustCompile("\x1b\\[[0-9;]*m")

func stripANSI(s string) string { return reANSI.ReplaceAllString(s, "") }

type fixedChooser map[string]int

func (f fixedChooser) Choose(n int, label string) int {
	if v, ok := f[label]; ok && v < n {
		return v
	}
	return 0
}

type ctxChooser struct{ c *h.Ctx }

func (c ctxChooser) Choose(n int, label string) int { return c.c.Choose(n, label) }

// restricted lets the explorer own the content labels only; the format stays plain.
type restricted struct {
	c *h.Ctx
}

func (r restricted) Choose(n int, label string) int {
	switch label {
	case "indent", "indent-blank", "crlf", "no-final-newline", "header-annotation", "frame-annotation", "file-indent", "no-pc-offset":
		return 0
	}
	if strings.HasSuffix(label, ".id") || strings.HasSuffix(label, "bubble") {
		return 0
	}
	if strings.HasSuffix(label, "stack-shape") {
		// keep stacks short except one elided shape
		k := r.c.Choose(4, label)
		return []int{0, 1, 4, 6}[k]
	}
	if strings.HasSuffix(label, "sym") {
		k := r.c.Choose(6, label)
		return []int{0, 2, 17, 22, 23, 13}[k]
	}
	if strings.HasSuffix(label, "file") {
		k := r.c.Choose(5, label)
		return []int{0, 3, 6, 13, 8}[k]
	}
	if strings.HasSuffix(label, "argshape") {
		k := r.c.Choose(5, label)
		return []int{0, 2, 7, 22, 25}[k]
	}
	if strings.HasSuffix(label, "leafvalues") {
		return r.c.Choose(3, label)
	}
	if strings.HasSuffix(label, "state") {
		k := r.c.Choose(4, label)
		return []int{0, 3, 8, 20}[k]
	}
	if strings.HasSuffix(label, "state-tail") {
		return r.c.Choose(2, label)
	}
	return r.c.Choose(n, label)
}

type c16Env struct {
	root   string // scratch root; GOPATH = root/gopath
	states []string
}

func newC16Env(t *testing.T) *c16Env {
	root, err := os.MkdirTemp(os.Getenv("VERIF_SCRATCH"), "c16")
	if err != nil {
		t.Fatal(err)
	}
	e := &c16Env{root: root}
	for _, f := range []string{"gopath/src/example.com/p/file.go", "gopath/src/example.com/p/日本.go"} {
		p := filepath.Join(root, f)
		_ = os.MkdirAll(filepath.Dir(p), 0o755)
		_ = os.WriteFile(p, []byte("package p\n"), 0o644)
	}
	os.Setenv("GOPATH", filepath.Join(root, "gopath"))
	os.Setenv("GOTRACEBACK", "all")
	st, _ := gen.States()
	e.states = st
	return e
}

// localise rewrites the generator's fixed paths so that some files exist locally.
func (e *c16Env) localise(b []byte) []byte {
	b = bytes.ReplaceAll(b, []byte("/home/user/go/src/"), []byte(e.root+"/gopath/src/"))
	b = bytes.ReplaceAll(b, []byte("/home/ü/ñ/日本.go"), []byte(e.root+"/gopath/src/example.com/p/日本.go"))
	return b
}

type renderCfg struct {
	pf      pathStyle
	colour  bool
	level   stack.Similarity
	filter  string
	match   string
	rebase  bool
	html    string // -html <file>: the rendering goes to this file instead of the console
	banner  bool   // GOTRACEBACK unset: a one-goroutine dump gets the "To see all goroutines" banner
}

func (c renderCfg) String() string {
	s := fmt.Sprintf("pf=%d colour=%v level=%d filter=%q match=%q", c.pf, c.colour, c.level, c.filter, c.match)
	if c.html != "" {
		s += " html"
	}
	if c.banner {
		s += " banner"
	}
	return s
}

// withEnv runs f with GOTRACEBACK set the way the configuration asks for.
func (c renderCfg) withEnv(f func()) {
	old, had := os.LookupEnv("GOTRACEBACK")
	if c.banner {
		os.Unsetenv("GOTRACEBACK")
	} else {
		os.Setenv("GOTRACEBACK", "all")
	}
	defer func() {
		if had {
			os.Setenv("GOTRACEBACK", old)
		} else {
			os.Unsetenv("GOTRACEBACK")
		}
	}()
	f()
}

// pathStyle is the harness's own name for the three path formats.
type pathStyle int

const (
	styleBase pathStyle = iota
	styleRel
	styleFull
)

// processFn runs the command's pipeline on one input. The in-package version (the
// real process() function) is installed by shim_inpkg_test.go; if that file no
// longer compiles against the tree the driver drops it and this version, which runs
// the real pp binary, is used instead.
var processFn = processViaBinary

// guardReader / guardWriter bound what one process() run may do, so that a pipeline
// that stops making progress is reported instead of eating the machine: more than
// guardIdleReads Reads after the input has ended, or more than guardMaxOut bytes of
// output, end the run with a panic that the callers report like any other panic.
// Both are counts, not clocks: on a terminating pipeline the first is bounded by the
// number of ScanSnapshot calls (one per dump) and the second by the input size.
const (
	guardIdleReads = 5000
	guardMaxOut    = 256 << 20
)

type guardReader struct {
	r     io.Reader
	ended bool
	idle  int
}

func (g *guardReader) Read(p []byte) (int, error) {
	n, err := g.r.Read(p)
	if g.ended && n == 0 {
		g.idle++
		if g.idle > guardIdleReads {
			panic(fmt.Sprintf("verif: no termination: the pipeline read its input %d more times after the input had ended", g.idle))
		}
	}
	if err != nil {
		g.ended = true
	}
	return n, err
}

type guardWriter struct {
	w io.Writer
	n int
}

func (g *guardWriter) Write(p []byte) (int, error) {
	g.n += len(p)
	if g.n > guardMaxOut {
		panic(fmt.Sprintf("verif: no termination: the pipeline wrote more than %d bytes", guardMaxOut))
	}
	return g.w.Write(p)
}

// guarded wraps a processFn with the two guards.
func guarded(f func(io.Reader, io.Writer, renderCfg, bool) error) func(io.Reader, io.Writer, renderCfg, bool) error {
	return func(in io.Reader, out io.Writer, c renderCfg, parse bool) error {
		return f(&guardReader{r: in}, &guardWriter{w: out}, c, parse)
	}
}

var processKind = "pp binary (exec)"

// processInProcess: processFn runs inside this process (readers and writers are the harness's).
var processInProcess = false

func cfgFlags(c renderCfg, parse bool) []string {
	var f []string
	if c.colour {
		f = append(f, "-force-color")
	} else {
		f = append(f, "-no-color")
	}
	switch c.pf {
	case styleFull:
		f = append(f, "-full-path")
	case styleRel:
		f = append(f, "-rel-path")
	}
	if c.level == stack.AnyValue {
		f = append(f, "-aggressive")
	}
	if c.filter != "" {
		f = append(f, "-f", c.filter)
	}
	if c.match != "" {
		f = append(f, "-m", c.match)
	}
	if !c.rebase && c.pf != styleRel {
		f = append(f, "-rebase=false")
	}
	if !parse {
		f = append(f, "-parse=false")
	}
	if c.html != "" {
		f = append(f, "-html", c.html)
	}
	return f
}

func processViaBinary(in io.Reader, out io.Writer, c renderCfg, parse bool) error {
	pp := os.Getenv("VERIF_PP")
	if pp == "" {
		return fmt.Errorf("verif: no pp binary")
	}
	cmd := ppCommand(pp, cfgFlags(c, parse)...)
	cmd.Env = os.Environ()
	if c.banner {
		var e []string
		for _, kv := range cmd.Env {
			if !strings.HasPrefix(kv, "GOTRACEBACK=") {
				e = append(e, kv)
			}
		}
		cmd.Env = e
	}
	cmd.Stdin = in
	cmd.Stdout = out
	var se bytes.Buffer
	cmd.Stderr = &se
	if err := cmd.Run(); err != nil {
		if reCrashReport.MatchString(se.String()) {
			panic("pp crashed: " + strings.SplitN(se.String(), "\n", 2)[0])
		}
		return fmt.Errorf("pp: %v: %s", err, strings.TrimSpace(se.String()))
	}
	return nil
}

var reCrashReport = regexp.MustCompile(`(?m)^(panic: |fatal error: |goroutine \d+ \[)`)

// watchdogLimit bounds one process() run. The inputs of the harness are at most a few
// hundred kilobytes and take milliseconds; a run that is still going after this long
// does not terminate (a pipeline that spins on an unconsumed remainder neither reads
// nor writes, so only a clock can see it). The goroutine cannot be stopped: callers
// stop exploring once hung is set, so the process ends soon after.
const watchdogLimit = 90 * time.Second

var (
	hungMu     sync.Mutex
	hungInputs = map[string]string{}
)

// hung reports whether some process() run did not terminate.
func hung() bool {
	hungMu.Lock()
	defer hungMu.Unlock()
	return len(hungInputs) != 0
}

type processResult struct {
	out      string
	err      error
	panicked string
}

// watchedProcess runs processFn on its own goroutine under the watchdog; key identifies
// the (input, configuration) so that the re-executions of a hanging run are answered
// from the first observation instead of starting more spinning goroutines.
func watchedProcess(key string, in io.Reader, c renderCfg, parse bool) processResult {
	hungMu.Lock()
	if p, ok := hungInputs[key]; ok {
		hungMu.Unlock()
		return processResult{panicked: p}
	}
	if len(hungInputs) != 0 {
		// the process already carries a spinning goroutine: nothing more is run
		hungMu.Unlock()
		return processResult{panicked: "verif: no termination: not run, an earlier process() run in this shard is still spinning"}
	}
	hungMu.Unlock()
	ch := make(chan processResult, 1)
	go func() {
		var r processResult
		var buf bytes.Buffer
		defer func() {
			if e := recover(); e != nil {
				r.panicked = fmt.Sprintf("%v\n%s", e, debug.Stack())
			}
			r.out = buf.String()
			ch <- r
		}()
		c.withEnv(func() { r.err = processFn(in, &buf, c, parse) })
	}()
	select {
	case r := <-ch:
		return r
	case <-time.After(watchdogLimit):
		p := fmt.Sprintf("verif: no termination: process() still running after %v", watchdogLimit)
		hungMu.Lock()
		hungInputs[key] = p
		hungMu.Unlock()
		return processResult{panicked: p}
	}
}

func runProcess(in []byte, c renderCfg) (out string, err error, panicked string) {
	r := watchedProcess(fmt.Sprintf("%x/%+v", sha256.Sum256(in), c), bytes.NewReader(in), c, false)
	return r.out, r.err, r.panicked
}

// ppCommand is exec.Command(pp, args...) killed after 2 minutes (a pp that does not
// terminate then shows as a failing run instead of hanging the check).
func ppCommand(pp string, args ...string) *exec.Cmd {
	ctx, _ := context.WithTimeout(context.Background(), 2*time.Minute)
	return exec.CommandContext(ctx, pp, args...)
}

// block is one rendered bucket / goroutine.
type block struct {
	header string
	lines  []string
}

func (b block) text() string { return b.header + "\n" + strings.Join(b.lines, "\n") }

var reHeader = regexp.MustCompile(`^\d+: `)

// splitBlocks parses console output made of blocks only.
func splitBlocks(out string) (blocks []block, stray []string) {
	for _, l := range strings.Split(strings.TrimSuffix(out, "\n"), "\n") {
		pl := stripANSI(l)
		switch {
		case reHeader.MatchString(pl):
			blocks = append(blocks, block{header: l})
		case strings.HasPrefix(pl, "    ") && len(blocks) > 0:
			blocks[len(blocks)-1].lines = append(blocks[len(blocks)-1].lines, l)
		case pl == "" && len(blocks) == 0:
		default:
			stray = append(stray, l)
		}
	}
	return
}

func formatCallRef(pf pathStyle, c *stack.Call) string {
	switch pf {
	case styleRel:
		if c.RelSrcPath != "" {
			return fmt.Sprintf("%s:%d", c.RelSrcPath, c.Line)
		}
		fallthrough
	case styleFull:
		if c.LocalSrcPath != "" {
			return fmt.Sprintf("%s:%d", c.LocalSrcPath, c.Line)
		}
		return fmt.Sprintf("%s:%d", c.RemoteSrcPath, c.Line)
	}
	return fmt.Sprintf("%s:%d", c.SrcName, c.Line)
}

// expectedBlock is what a block must show, from the library's data.
type expectedBlock struct {
	count   int // member count or goroutine id
	sig     *stack.Signature
	race    *stack.Goroutine
}

func expectedBlocks(in []byte, c renderCfg) ([]expectedBlock, *stack.Snapshot, error) {
	opts := stack.DefaultOpts()
	if !c.rebase {
		opts.GuessPaths = false
	}
	opts.AnalyzeSources = false
	s, _, err := stack.ScanSnapshot(bytes.NewReader(in), &bytes.Buffer{}, opts)
	if s == nil {
		return nil, nil, err
	}
	var out []expectedBlock
	if s.IsRace() {
		for _, g := range s.Goroutines {
			out = append(out, expectedBlock{count: g.ID, sig: &g.Signature, race: g})
		}
		return out, s, err
	}
	for _, b := range s.Aggregate(c.level).Buckets {
		out = append(out, expectedBlock{count: len(b.IDs), sig: &b.Signature})
	}
	return out, s, err
}

// checkBlock verifies one rendered block against its expectation; it returns the
// rune columns of the file and function fields of each frame line.
func checkBlock(b block, e expectedBlock, pf pathStyle) (msg string, fileCols, funcCols []int) {
	hd := stripANSI(b.header)
	pre := fmt.Sprintf("%d: %s", e.count, e.sig.State)
	if !strings.HasPrefix(hd, pre) {
		return fmt.Sprintf("header %q does not start with count/id and state %q", hd, pre), nil, nil
	}
	rest := hd[len(pre):]
	want := ""
	if e.sig.SleepMax != 0 {
		if e.sig.SleepMin != e.sig.SleepMax {
			want += fmt.Sprintf(" [%d~%d minutes]", e.sig.SleepMin, e.sig.SleepMax)
		} else {
			want += fmt.Sprintf(" [%d minutes]", e.sig.SleepMax)
		}
	}
	if e.sig.Locked {
		want += " [locked]"
	}
	if len(e.sig.CreatedBy.Calls) != 0 {
		cc := &e.sig.CreatedBy.Calls[0]
		want += " [Created by " + cc.Func.DirName + "." + cc.Func.Name + " @ " + formatCallRef(pf, cc) + "]"
	}
	if e.race != nil && e.race.RaceAddr != 0 {
		k := "read"
		if e.race.RaceWrite {
			k = "write"
		}
		want += fmt.Sprintf(" Race %s @ 0x%08x", k, e.race.RaceAddr)
	}
	if rest != want {
		return fmt.Sprintf("header shows %q after the state, the data says %q (sleep range, lock, creator, race)", rest, want), nil, nil
	}
	calls := e.sig.Stack.Calls
	wantLines := len(calls)
	if e.sig.Stack.Elided {
		wantLines++
	}
	if len(b.lines) != wantLines {
		return fmt.Sprintf("%d frame lines for %d frames (elided=%v)", len(b.lines), len(calls), e.sig.Stack.Elided), nil, nil
	}
	for i := range calls {
		c := &calls[i]
		l := stripANSI(b.lines[i])
		if !strings.HasPrefix(l, "    "+c.Func.DirName) {
			return fmt.Sprintf("frame line %d %q does not start with the package %q", i, l, c.Func.DirName), nil, nil
		}
		after := 4 + len(c.Func.DirName)
		src := formatCallRef(pf, c)
		si := strings.Index(l[after:], src)
		if si < 0 {
			return fmt.Sprintf("frame line %d %q lacks file:line %q after the package", i, l, src), nil, nil
		}
		if strings.TrimSpace(l[after:after+si]) != "" {
			return fmt.Sprintf("frame line %d %q: unexpected text between package and file", i, l), nil, nil
		}
		fileCol := utf8.RuneCountInString(l[:after+si])
		afterSrc := after + si + len(src)
		fn := c.Func.Name + "(" + c.Args.String() + ")"
		fi := strings.Index(l[afterSrc:], fn)
		if fi < 0 {
			return fmt.Sprintf("frame line %d %q lacks function and arguments %q after the file", i, l, fn), nil, nil
		}
		if strings.TrimSpace(l[afterSrc:afterSrc+fi]) != "" {
			return fmt.Sprintf("frame line %d %q: unexpected text between file and function", i, l), nil, nil
		}
		if l[afterSrc+fi+len(fn):] != "" {
			return fmt.Sprintf("frame line %d %q: trailing text after the arguments", i, l), nil, nil
		}
		funcCol := utf8.RuneCountInString(l[:afterSrc+fi])
		if fileCol <= 4 || funcCol <= fileCol {
			return fmt.Sprintf("frame line %d %q: fields out of order", i, l), nil, nil
		}
		fileCols = append(fileCols, fileCol)
		funcCols = append(funcCols, funcCol)
	}
	if e.sig.Stack.Elided {
		if stripANSI(b.lines[len(b.lines)-1]) != "    (...)" {
			return fmt.Sprintf("elided stack: last line is %q, want the (...) marker", b.lines[len(b.lines)-1]), nil, nil
		}
	}
	return "", fileCols, funcCols
}

func c16Check(in []byte, cfg renderCfg, key string) *h.Viol {
	mk := func(cat, msg string) *h.Viol {
		v := &h.Viol{Fingerprint: "C16/" + cat, Summary: cfg.String() + ": " + msg, Key: key, Kind: "console"}
		v.SetInput(in)
		return v
	}
	exp, _, _ := expectedBlocks(in, cfg)
	if exp == nil {
		return nil // not a dump: nothing to render
	}
	out, err, p := runProcess(in, cfg)
	if p != "" {
		return mk("panic", "process panicked: "+strings.SplitN(p, "\n", 2)[0])
	}
	_ = err
	blocks, stray := splitBlocks(out)
	if len(stray) != 0 {
		return mk("stray-output", fmt.Sprintf("output line %q is neither header nor frame line", stray[0]))
	}
	// admitted blocks
	var admitted []expectedBlock
	var filter, match *regexp.Regexp
	if cfg.filter != "" {
		filter = regexp.MustCompile(cfg.filter)
	}
	if cfg.match != "" {
		match = regexp.MustCompile(cfg.match)
	}
	if filter == nil && match == nil {
		admitted = exp
		if len(blocks) != len(exp) {
			return mk("block-count", fmt.Sprintf("%d blocks rendered for %d buckets/goroutines", len(blocks), len(exp)))
		}
		var fileCol, funcCol = -1, -1
		for i := range blocks {
			msg, fc, fnc := checkBlock(blocks[i], admitted[i], cfg.pf)
			if msg != "" {
				cat := "frame-line"
				if strings.HasPrefix(msg, "header") {
					cat = "header"
				} else if strings.Contains(msg, "elided") {
					cat = "elided-marker"
				}
				return mk(cat, fmt.Sprintf("block %d: %s", i, msg))
			}
			for k := range fc {
				if fileCol == -1 {
					fileCol, funcCol = fc[k], fnc[k]
				}
				if fc[k] != fileCol {
					return mk("file-column-misaligned", fmt.Sprintf("block %d frame %d: file field starts at rune column %d, elsewhere at %d", i, k, fc[k], fileCol))
				}
				if fnc[k] != funcCol {
					return mk("func-column-misaligned", fmt.Sprintf("block %d frame %d: function field starts at rune column %d, elsewhere at %d", i, k, fnc[k], funcCol))
				}
			}
		}
		if cfg.colour {
			plain := cfg
			plain.colour = false
			pout, _, pp := runProcess(in, plain)
			if pp == "" && stripANSI(out) != pout {
				return mk("colour-changes-text", fmt.Sprintf("removing the escape sequences from the coloured output does not give the uncoloured output:\n%q\nvs\n%q", trunc(stripANSI(out)), trunc(pout)))
			}
		}
		return nil
	}
	// both expressions at once: a block is shown iff -f alone shows it and -m alone shows it
	if cfg.filter != "" && cfg.match != "" {
		fOnly, mOnly := cfg, cfg
		fOnly.match, mOnly.filter = "", ""
		fo, _, fp := runProcess(in, fOnly)
		mo, _, mp := runProcess(in, mOnly)
		if fp != "" || mp != "" {
			return nil
		}
		fb, _ := splitBlocks(fo)
		mb, _ := splitBlocks(mo)
		inM := map[string]int{}
		for _, b := range mb {
			inM[b.text()]++
		}
		var want []string
		for _, b := range fb {
			if inM[b.text()] > 0 {
				inM[b.text()]--
				want = append(want, b.text())
			}
		}
		var got []string
		for _, b := range blocks {
			got = append(got, b.text())
		}
		if strings.Join(got, "\x00") != strings.Join(want, "\x00") {
			return mk("filter-and-match-not-the-intersection", fmt.Sprintf("-f %q and -m %q together show %d blocks; %d blocks are shown by each of them alone", cfg.filter, cfg.match, len(got), len(want)))
		}
		return nil
	}
	// filter / match: compare with the unfiltered blocks
	base := cfg
	base.filter, base.match = "", ""
	bout, _, bp := runProcess(in, base)
	if bp != "" {
		return nil
	}
	all, _ := splitBlocks(bout)
	// blocks must be a subsequence of all
	j := 0
	for _, b := range blocks {
		for j < len(all) && all[j].text() != b.text() {
			j++
		}
		if j == len(all) {
			return mk("filtered-block-not-in-unfiltered", fmt.Sprintf("block %q does not occur (in order) in the unfiltered output", stripANSI(b.header)))
		}
		j++
	}
	// the complementary expression yields exactly the other blocks
	comp := cfg
	comp.filter, comp.match = cfg.match, cfg.filter
	cout, _, cp := runProcess(in, comp)
	if cp != "" {
		return nil
	}
	cblocks, _ := splitBlocks(cout)
	if len(blocks)+len(cblocks) != len(all) {
		return mk("filter-match-not-complementary", fmt.Sprintf("filter and match with the same expression yield %d + %d blocks, unfiltered has %d", len(blocks), len(cblocks), len(all)))
	}
	seen := map[string]int{}
	for _, b := range all {
		seen[b.text()]++
	}
	for _, b := range append(append([]block{}, blocks...), cblocks...) {
		seen[b.text()]--
	}
	for k, n := range seen {
		if n != 0 {
			return mk("filter-match-not-a-partition", fmt.Sprintf("block %q is in %+d of the two outputs", trunc(stripANSI(k)), 1-n))
		}
	}
	return nil
}

func trunc(s string) string {
	if len(s) > 300 {
		return s[:200] + fmt.Sprintf("...[%d]...", len(s)) + s[len(s)-60:]
	}
	return s
}

func c16Expressions(in []byte) []string {
	ex := []string{"locked", "minutes", "Created by", `^\d+: `, ".*", "^$", "running|select", `\[`, "chan"}
	exp, _, _ := expectedBlocks(in, renderCfg{pf: styleBase, level: stack.AnyPointer})
	seen := map[string]bool{}
	for _, e := range exp {
		q := regexp.QuoteMeta(e.sig.State)
		if !seen[q] {
			seen[q] = true
			ex = append(ex, q)
		}
	}
	return ex
}

func TestVerifC16(t *testing.T) {
	r := h.Start("C16")
	defer r.Finish(func(s string) { t.Error(s) })
	env := newC16Env(t)
	defer os.RemoveAll(env.root)
	genv := &gen.Env{States: env.states}
	bound := r.Pick(2, 3)
	r.Set("rule", fmt.Sprintf("dumps = all choice vectors of the traceback-printer model with <=%d content deviations over a restricted alphabet (non-ASCII package and file names, dotted paths, elided stacks, creators, sleep, lock, nested arguments, 1..5 goroutines) + 4 race reports; each x path format {base, rel, full} x colour {off,on} x similarity {AnyPointer, AnyValue} (full product of the configuration) and x filter/match expressions drawn from the headers; rendered by the real process(); oracle from the library's own snapshot/aggregation: one block per admitted bucket in order, header fields, frame line fields in order, file and function columns equal over the whole output (rune columns), (...) marker iff elided, strip(colour)=plain, filter/match partition the unfiltered blocks; -f and -m together show the intersection. non-trivial = more than one block or a non-default configuration; distinct = (input, configuration)", bound))
	r.Set("assumptions", []string{"expected header and frame fields are computed from the public stack API on the same input and options; the check is about rendering, not parsing", "GOPATH points at a scratch layout so that relative paths exist"})
	if rv := r.ReplayFile(); rv != nil {
		t.Logf("replay %s: %s\ninput:\n%s", rv.Key, rv.Summary, rv.Input())
		return
	}
	var inputs [][]byte
	h.Explore(bound, nil, func(c *h.Ctx) {
		d := gen.GenDump(restricted{c}, genv)
		inputs = append(inputs, env.localise(d.Bytes()))
	})
	for _, rc := range []fixedChooser{{}, {"op0.frames": 1, "op1.args": 1}, {"ops": 1, "section-for-op1": 1, "sec0.frames": 1}, {"op0.write": 1, "sec1.finished": 1, "op1.frames": 1, "op0.args": 1}} {
		rr, _ := gen.GenRace(rc)
		inputs = append(inputs, env.localise(rr.Bytes()))
	}
	r.Set("inputs", len(inputs))
	seq := 0
	for ii, in := range inputs {
		exprs := c16Expressions(in)
		for _, pf := range []pathStyle{styleBase, styleRel, styleFull} {
			for _, colour := range []bool{false, true} {
				for _, lv := range []stack.Similarity{stack.AnyPointer, stack.AnyValue} {
					cfgs := []renderCfg{{pf: pf, colour: colour, level: lv, rebase: true}}
					if pf == styleBase {
						cfgs = append(cfgs, renderCfg{pf: pf, colour: colour, level: lv, rebase: false})
					}
					if lv == stack.AnyPointer {
						for _, e := range exprs {
							cfgs = append(cfgs, renderCfg{pf: pf, colour: colour, level: lv, rebase: true, filter: e})
							if pf == styleBase {
								cfgs = append(cfgs, renderCfg{pf: pf, colour: colour, level: lv, rebase: true, match: e})
							}
						}
						// both flags at once, over the first expressions
						if pf == styleBase {
							for fi := 0; fi < len(exprs) && fi < 4; fi++ {
								for mi := 0; mi < len(exprs) && mi < 4; mi++ {
									if fi != mi {
										cfgs = append(cfgs, renderCfg{pf: pf, colour: colour, level: lv, rebase: true, filter: exprs[fi], match: exprs[mi]})
									}
								}
							}
						}
					}
					for _, cfg := range cfgs {
						seq++
						if !r.MineIdx(seq) || r.Expired() {
							continue
						}
						cfg := cfg
						key := fmt.Sprintf("in%d %s", ii, cfg)
						v := r.Check(func() *h.Viol { return c16Check(in, cfg, key) })
						out := "ok"
						if v != nil {
							out = v.Fingerprint
						}
						r.Record(key, true, out+h.Hash(strings.ReplaceAll(string(in), env.root, "$ROOT"))[:3])
						if seq%1501 == 0 {
							o, _, _ := runProcess(in, cfg)
							r.Sample(map[string]any{"config": cfg.String(), "input": trunc(string(in)), "output": trunc(o)})
						}
					}
				}
			}
		}
	}
	// a subset through the real pp binary: stdout must equal the in-process bytes
	if pp := os.Getenv("VERIF_PP"); pp != "" {
		n := 0
		for ii, in := range inputs {
			if ii%7 != 0 && !r.Thorough() {
				continue
			}
			for ci, flags := range [][]string{{"-no-color"}, {"-force-color", "-full-path"}, {"-no-color", "-aggressive", "-rel-path"}, {"-no-color", "-f", "running"}, {"-force-color", "-m", "select|chan"}} {
				n++
				if !r.MineIdx(n) {
					continue
				}
				cfg := renderCfg{pf: styleBase, level: stack.AnyPointer, rebase: true}
				for i, f := range flags {
					switch f {
					case "-force-color":
						cfg.colour = true
					case "-full-path":
						cfg.pf = styleFull
					case "-rel-path":
						cfg.pf = styleRel
					case "-aggressive":
						cfg.level = stack.AnyValue
					case "-f":
						cfg.filter = flags[i+1]
					case "-m":
						cfg.match = flags[i+1]
					}
				}
				want, _, p := runProcess(in, cfg)
				if p != "" {
					continue
				}
				cmd := ppCommand(pp, append(flags, "-parse=false")...)
				cmd.Stdin = bytes.NewReader(in)
				var so, se bytes.Buffer
				cmd.Stdout, cmd.Stderr = &so, &se
				_ = cmd.Run()
				key := fmt.Sprintf("pp in%d flags%d", ii, ci)
				if so.String() != want {
					vv := &h.Viol{Fingerprint: "C16/pp-differs-from-in-process", Summary: fmt.Sprintf("pp %v: stdout differs from process(): %q vs %q (stderr %q)", flags, trunc(so.String()), trunc(want), trunc(se.String())), Key: key, Reproduced: 5}
					vv.SetInput(in)
					r.Report(vv)
				}
				r.Record(key, true, "pp")
				r.Add("pp_binary_runs", 1)
			}
		}
	}
}
