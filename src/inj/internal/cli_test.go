//go:build verif

package internal

// End-to-end parts of C02, C03 and C11: the real process() function in process and
// the real pp binary over pipes.

import (
	"bytes"
	"fmt"
	"io"
	"os"
	"os/exec"
	"path/filepath"
	"regexp"
	"sort"
	"strings"
	"testing"
	"time"

	"github.com/maruel/panicparse/v2/internal/verifx/gen"
	"github.com/maruel/panicparse/v2/internal/verifx/h"
	"github.com/maruel/panicparse/v2/internal/verifx/rline"
	"github.com/maruel/panicparse/v2/stack"
)

// reCrash recognises a Go runtime crash report on stderr.
var reCrash = regexp.MustCompile(`(?m)^(panic: |fatal error: |goroutine \d+ \[|runtime error: )`)

// chunkReader delivers the data in the given pieces (then everything).
type chunkReader struct {
	data   []byte
	off    int
	chunks []int
	ci     int
}

func (c *chunkReader) Read(p []byte) (int, error) {
	if c.off >= len(c.data) {
		return 0, io.EOF
	}
	n := len(c.data) - c.off
	if c.ci < len(c.chunks) {
		if c.chunks[c.ci] < n {
			n = c.chunks[c.ci]
		}
		c.ci++
	}
	if n > len(p) {
		n = len(p)
	}
	copy(p, c.data[c.off:c.off+n])
	c.off += n
	return n, nil
}

var plainSeq int

var plainCfg = renderCfg{pf: styleBase, level: stack.AnyPointer}

func plainProcess(in io.Reader) (string, error, string) { return cfgProcess(in, plainCfg) }

func cfgProcess(in io.Reader, cfg renderCfg) (string, error, string) {
	// readers are not comparable by content: every call is its own watchdog key
	plainSeq++
	r := watchedProcess(fmt.Sprintf("plain#%d", plainSeq), in, cfg, false)
	return r.out, r.err, r.panicked
}

func linesBytes(lines []rline.Line, idx []int) []byte {
	var b []byte
	for _, i := range idx {
		b = append(b, lines[i].Bytes()...)
	}
	return b
}

// expectedCLIOutput: the input with each model dump segment replaced by the
// rendering obtained by running the same pipeline on that segment alone.
func expectedCLIOutput(lines []rline.Line, pred []rline.Call, renderCache map[string]string) (out string, heldAtEOF []byte, ok bool) {
	return expectedCLIOutputCfg(lines, pred, renderCache, plainCfg)
}

func expectedCLIOutputCfg(lines []rline.Line, pred []rline.Call, renderCache map[string]string, cfg renderCfg) (out string, heldAtEOF []byte, ok bool) {
	var b strings.Builder
	for _, p := range pred {
		b.Write(linesBytes(lines, p.Pass))
		if p.Gs != nil {
			seg := linesBytes(lines, p.Dump)
			ck := cfg.String() + "\x00" + string(seg)
			r, cached := renderCache[ck]
			if !cached {
				o, err, pn := cfgProcess(bytes.NewReader(seg), cfg)
				if pn != "" || (err != nil) {
					renderCache[ck] = "\x00ERR"
					return "", nil, false
				}
				r = o
				renderCache[ck] = r
			}
			if r == "\x00ERR" {
				return "", nil, false
			}
			b.WriteString(r)
		} else if len(p.Dump) != 0 {
			return "", nil, false // malformed preamble: an error is allowed
		}
		heldAtEOF = append(heldAtEOF, linesBytes(lines, p.HeldAtEOF)...)
	}
	return b.String(), heldAtEOF, true
}

func TestVerifC02CLI(t *testing.T) { runCLIStreams(t, "C02") }

// TestVerifC07CLI: the command's resume loop (remainder fed back in front of the
// unread input) yields exactly one rendering per dump of the stream, each equal to
// the rendering of that dump alone, nothing skipped and nothing scanned twice - the
// same stream product and deliveries as the C02 part, judged for C07.
func TestVerifC07CLI(t *testing.T) { runCLIStreams(t, "C07") }

func runCLIStreams(t *testing.T, prop string) {
	r := h.Start(prop)
	defer r.Finish(func(s string) { t.Error(s) })
	os.Setenv("GOTRACEBACK", "all")
	r.Set("rule_cli", "every stream of the junk x dump product through the real process() (colour off, no rebase), delivered at once and line by line; when it returns nil its output must be the input with each model dump replaced by the rendering of that dump alone (differential); a subset through the real pp binary must print the same bytes and exit 0 iff process() returned nil")
	if rv := r.ReplayFile(); rv != nil {
		in := rv.Input()
		o, err, p := plainProcess(bytes.NewReader(in))
		t.Logf("replay %s: %s\ninput %q\nnow: out=%q err=%v panic=%q", rv.Key, rv.Summary, trunc(string(in)), trunc(o), err, p)
		return
	}
	pp := os.Getenv("VERIF_PP")
	cache := map[string]string{}
	gen.ForEachStream(r.Thorough(), func(seq int, name string, lines []rline.Line) {
		if !r.MineIdx(seq) || r.Expired() {
			return
		}
		var input []byte
		var lineLens []int
		for _, l := range lines {
			b := l.Bytes()
			input = append(input, b...)
			lineLens = append(lineLens, len(b))
		}
		pred := rline.Predict(lines)
		want, held, ok := expectedCLIOutput(lines, pred, cache)
		var outAtOnce string
		var errAtOnce error
		for di, mk := range []func() io.Reader{
			func() io.Reader { return bytes.NewReader(input) },
			func() io.Reader { return &chunkReader{data: input, chunks: lineLens} },
		} {
			key := fmt.Sprintf("cli: %s delivery=%d", name, di)
			v := r.Check(func() *h.Viol {
				out, err, p := plainProcess(mk())
				mkv := func(fp, msg string) *h.Viol {
					v := &h.Viol{Fingerprint: prop + "/cli/" + fp, Summary: fmt.Sprintf("process() on %s (delivery %d): %s", name, di, msg), Key: key, Kind: "cli", Expected: trunc(want), Observed: trunc(out)}
					v.SetInput(input)
					return v
				}
				if p != "" {
					return mkv("panic", "panic: "+p)
				}
				if di == 0 {
					outAtOnce = out
					errAtOnce = err
				} else if out != outAtOnce && err == nil && errAtOnce == nil {
					return mkv("output-depends-on-delivery", "line-by-line delivery gives a different output than delivery at once")
				}
				if err != nil || !ok {
					return nil
				}
				if len(held) == 0 && out == want {
					return nil
				}
				if len(held) != 0 {
					if out == want+string(held) {
						return nil
					}
					if out == want && prop != "C02" {
						return nil // the withheld preamble at the end of the stream is C02's subject
					}
					if out == want {
						// known finding: a stream ending right after a race preamble keeps it withheld
						fp := "C02/lost:SEP:at-eof"
						if bytes.Contains(held, []byte("WARNING")) {
							fp = "C02/lost:SEP+WARN:at-eof"
						}
						v := mkv("", "stream ends right after a race preamble: "+fmt.Sprintf("%q", held)+" is never output")
						v.Fingerprint = fp
						return v
					}
				}
				return mkv("exit-0-output-differs", "process() returned nil but its output is not the input with each dump replaced by its rendering")
			})
			o := "ok"
			if v != nil {
				o = v.Fingerprint
			}
			r.Record(key, true, o)
			r.Add("traces_validated_against_impl", 1)
		}
		// every 7th stream also under the other configurations of the command: aggressive
		// merging, full paths with colour and rebasing, the banner of a one-goroutine dump
		// (GOTRACEBACK unset), and -html (the rendering goes to a file: the console output
		// is then the input without its dumps)
		if seq%7 == 0 {
			htmlFile := filepath.Join(os.Getenv("VERIF_SCRATCH"), fmt.Sprintf("cli-%s-%d.html", prop, r.Shard))
			for ci, cfg := range []renderCfg{
				{pf: styleBase, level: stack.AnyValue},
				{pf: styleFull, level: stack.AnyPointer, colour: true, rebase: true},
				{pf: styleBase, level: stack.AnyPointer, banner: true},
				{pf: styleBase, level: stack.AnyPointer, html: htmlFile},
				{pf: styleRel, level: stack.AnyPointer, match: "running|chan", rebase: true},
			} {
				wantC, heldC, okC := expectedCLIOutputCfg(lines, pred, cache, cfg)
				if !okC {
					continue
				}
				for di, mk := range []func() io.Reader{
					func() io.Reader { return bytes.NewReader(input) },
					func() io.Reader { return &chunkReader{data: input, chunks: lineLens} },
				} {
					key := fmt.Sprintf("cli: %s cfg=%d delivery=%d", name, ci, di)
					v := r.Check(func() *h.Viol {
						out, err, p := cfgProcess(mk(), cfg)
						mkv := func(fp, msg string) *h.Viol {
							v := &h.Viol{Fingerprint: prop + "/cli/" + fp, Summary: fmt.Sprintf("process() [%s] on %s (delivery %d): %s", cfg, name, di, msg), Key: key, Kind: "cli", Expected: trunc(wantC), Observed: trunc(out)}
							v.SetInput(input)
							return v
						}
						if p != "" {
							return mkv("panic", "panic: "+p)
						}
						if err != nil {
							return nil
						}
						if out == wantC || (len(heldC) != 0 && out == wantC+string(heldC)) {
							return nil
						}
						return mkv("exit-0-output-differs:other-configuration", "process() returned nil but its output is not the input with each dump replaced by its rendering under the same configuration")
					})
					o := "ok"
					if v != nil {
						o = v.Fingerprint
					}
					r.Record(key, true, o)
				}
			}
			_ = os.Remove(htmlFile)
		}
		// a subset through the real binary
		if pp != "" && seq%61 == 0 {
			cmd := ppCommand(pp, "-no-color", "-rebase=false", "-parse=false")
			cmd.Stdin = bytes.NewReader(input)
			var so, se bytes.Buffer
			cmd.Stdout, cmd.Stderr = &so, &se
			runErr := cmd.Run()
			out, err, _ := plainProcess(bytes.NewReader(input))
			key := "pp: " + name
			if so.String() != out || (runErr == nil) != (err == nil) {
				v := &h.Viol{Fingerprint: prop + "/cli/pp-differs-from-process", Summary: fmt.Sprintf("pp on %s: stdout/exit (%v) differ from process() (%v)", name, runErr, err), Key: key, Expected: trunc(out), Observed: trunc(so.String()), Reproduced: 5}
				v.SetInput(input)
				r.Report(v)
			}
			r.Record(key, true, "pp")
			r.Add("pp_binary_runs", 1)
		}
	})
}

func TestVerifC03CLI(t *testing.T) {
	r := h.Start("C03")
	defer r.Finish(func(s string) { t.Error(s) })
	os.Setenv("GOTRACEBACK", "all")
	if rv := r.ReplayFile(); rv != nil {
		in := rv.Input()
		o, err, p := plainProcess(bytes.NewReader(in))
		t.Logf("replay %s: %s\nnow: out=%q err=%v panic=%q", rv.Key, rv.Summary, trunc(o), err, p)
		return
	}
	pp := os.Getenv("VERIF_PP")
	n := 0
	gen.RobustInputs(r.Thorough(), func(kind string, seed int, input []byte, changed bool) {
		n++
		if !r.Mine(string(input)) || r.Expired() {
			return
		}
		key := fmt.Sprintf("cli %s seed%d %s", kind, seed, h.Hash(string(input)))
		v := r.Check(func() *h.Viol {
			for _, cfg := range []renderCfg{{pf: styleBase, level: stack.AnyPointer}, {pf: styleFull, level: stack.AnyValue, colour: true, rebase: true}} {
				_, _, p := runProcess(input, cfg)
				if p != "" {
					v := &h.Viol{Fingerprint: "C03/cli/panic:" + strings.SplitN(p, "\n", 2)[0], Summary: "process() panicked: " + strings.SplitN(p, "\n", 2)[0], Key: key, Kind: "cli"}
					v.SetInput(input)
					return v
				}
			}
			return nil
		})
		o := "ok"
		if v != nil {
			o = v.Fingerprint
		}
		r.Record(key, changed, o+kind)
		if pp != "" && n%29 == 0 {
			cmd := ppCommand(pp, "-no-color")
			cmd.Stdin = bytes.NewReader(input)
			var so, se bytes.Buffer
			cmd.Stdout, cmd.Stderr = &so, &se
			err := cmd.Run()
			code := 0
			if ee, ok := err.(*exec.ExitError); ok {
				code = ee.ExitCode()
			} else if err != nil {
				code = -1
			}
			stderr := se.String()
			if (code != 0 && code != 1) || reCrash.MatchString(stderr) {
				vv := &h.Viol{Fingerprint: fmt.Sprintf("C03/cli/pp-crash:exit%d", code), Summary: fmt.Sprintf("pp exit %d stderr %q", code, trunc(stderr)), Key: "pp " + key, Reproduced: 5}
				vv.SetInput(input)
				r.Report(vv)
			}
			r.Add("pp_binary_runs", 1)
		}
	})
}

// ---- C11 end to end: the pp binary as a live filter over pipes ------------------

type pipeStep struct {
	write  string // bytes written to pp's stdin
	expect string // text that must have appeared on stdout (cumulatively) before the next step
}

func runPipeScenario(pp string, flags []string, steps []pipeStep, limit time.Duration) (string, string) {
	cmd := exec.Command(pp, flags...)
	stdin, err := cmd.StdinPipe()
	if err != nil {
		return "", "stdin pipe: " + err.Error()
	}
	stdout, err := cmd.StdoutPipe()
	if err != nil {
		return "", "stdout pipe: " + err.Error()
	}
	cmd.Env = append(os.Environ(), "GOTRACEBACK=all")
	if err := cmd.Start(); err != nil {
		return "", "start: " + err.Error()
	}
	defer func() {
		stdin.Close()
		_ = cmd.Process.Kill()
		_ = cmd.Wait()
	}()
	got := make(chan []byte, 1024)
	go func() {
		buf := make([]byte, 4096)
		for {
			n, err := stdout.Read(buf)
			if n > 0 {
				got <- append([]byte{}, buf[:n]...)
			}
			if err != nil {
				close(got)
				return
			}
		}
	}()
	var acc []byte
	for si, st := range steps {
		if _, err := io.WriteString(stdin, st.write); err != nil {
			return string(acc), fmt.Sprintf("step %d: write: %v", si, err)
		}
		deadline := time.After(limit)
		for !strings.Contains(stripANSI(string(acc)), st.expect) {
			select {
			case b, ok := <-got:
				if !ok {
					return string(acc), fmt.Sprintf("step %d: pp closed stdout before %q appeared", si, st.expect)
				}
				acc = append(acc, b...)
			case <-deadline:
				return string(acc), fmt.Sprintf("step %d: after writing %q, %q did not appear on stdout within %v while stdin stays open (output so far %q)", si, trunc(st.write), st.expect, limit, trunc(string(acc)))
			}
		}
	}
	return string(acc), ""
}

func TestVerifC11CLI(t *testing.T) {
	r := h.Start("C11")
	defer r.Finish(func(s string) { t.Error(s) })
	pp := os.Getenv("VERIF_PP")
	if pp == "" || r.Shard != 0 {
		return
	}
	dump := "goroutine 1 [running]:\nmain.main()\n\t/a/main.go:10 +0x1d\n\ngoroutine 7 [chan receive]:\nmain.worker(0x1)\n\t/a/w.go:22 +0x45\n"
	race := "==================\nWARNING: DATA RACE\nWrite at 0x00c000014100 by goroutine 7:\n  main.w()\n      /a/r.go:5 +0x3a\n\nPrevious read at 0x00c000014100 by goroutine 8:\n  main.r()\n      /a/r.go:9 +0x3a\n\nGoroutine 7 (running) created at:\n  main.main()\n      /a/r.go:20 +0x5c\n==================\n"
	byByte := func(s, expect string) []pipeStep {
		var st []pipeStep
		for i := 0; i < len(s); i++ {
			st = append(st, pipeStep{write: s[i : i+1]})
		}
		st[len(st)-1].expect = expect
		return st
	}
	scenarios := map[string][]pipeStep{
		"junk-lines":          {{"line one\nline two\n", "line one\n"}, {"line three\n", "line two\n"}},
		"dump-then-end-line":  {{"starting\n" + dump, "starting\n"}, {"exit status 2\n", "1: running"}, {"", "1: chan receive"}, {"more\n", "exit status 2\n"}},
		"dump-blank-junk":     {{dump + "\n", ""}, {"tail\n", "main.go:10"}},
		"race-report":         {{"out\n" + race, "Race write"}, {"after\n", "Race read"}},
		"two-dumps":           {{dump + "between\n", "1: running"}, {dump + "end\n", "between\n"}, {"x\n", "end\n"}},
		"byte-at-a-time-dump": append(byByte("log\n"+dump+"done\n", "1: chan receive"), pipeStep{"z\n", "done\n"}),
	}
	// each scenario under several flag sets of the command (its stdout is a pipe here)
	flagSets := [][]string{{"-no-color", "-rebase=false", "-parse=false"}, {"-force-color"}, {}, {"-full-path", "-aggressive"}, {"-rel-path", "-m", "."}}
	var names []string
	for name := range scenarios {
		names = append(names, name)
	}
	sort.Strings(names)
	for _, name := range names {
		for fi, flags := range flagSets {
			out, msg := runPipeScenario(pp, flags, scenarios[name], 30*time.Second)
			key := fmt.Sprintf("pipe %s flags%d", name, fi)
			if msg != "" {
				fp := "C11/cli/" + name
				if fi != 0 {
					fp += ":" + strings.Join(flags, " ")
				}
				r.Report(&h.Viol{Fingerprint: fp, Summary: fmt.Sprintf("pp %v over a pipe, scenario %s: %s", flags, name, msg), Key: key, Observed: trunc(out), Reproduced: 5})
			}
			r.Record(key, true, fmt.Sprint(msg == ""))
			r.Add("pipe_scenarios", 1)
		}
	}
	r.Sample(map[string]any{"pipe_scenarios": []string{"junk-lines", "dump-then-end-line", "dump-blank-junk", "race-report", "two-dumps", "byte-at-a-time-dump"}, "limit": "30s liveness limit per step, stdin kept open", "flag_sets": "-no-color -rebase=false -parse=false | -force-color | (none) | -full-path -aggressive | -rel-path -m ."})
}

// ---- C11 in process: process() under a scripted reader, monitored at every Read ----

type hookReader struct {
	chunkReader
	onRead func(off int)
}

func (h *hookReader) Read(p []byte) (int, error) {
	if h.onRead != nil {
		h.onRead(h.off)
	}
	return h.chunkReader.Read(p)
}

func c11ProcessStreams() (names []string, streams [][]rline.Line) {
	junk := map[string]gen.Named{}
	for _, j := range gen.StreamJunk(false) {
		junk[j.Name] = j
	}
	dumps := map[string]gen.Named{}
	for _, d := range gen.StreamDumps(false) {
		dumps[d.Name] = d
	}
	tail := []rline.Line{{Text: "exit status 2", Kind: rline.OTHER}, {Text: "second trailer line", Kind: rline.OTHER}, {Text: "third", Kind: rline.OTHER}}
	add := func(name string, parts ...[]rline.Line) {
		var l []rline.Line
		for _, p := range parts {
			l = append(l, p...)
		}
		names = append(names, name)
		streams = append(streams, l)
	}
	add("junk dump trailer", junk["panic-line+blank"].Lines, dumps["dump-plain"].Lines, tail)
	add("dump-ending-in-creator trailer", junk["one-line"].Lines, dumps["dump-ends-in-creator"].Lines, tail)
	add("race trailer", junk["one-line"].Lines, dumps["race-report"].Lines, tail)
	add("two dumps", dumps["dump-plain"].Lines, junk["crlf-lines"].Lines, dumps["dump-unavailable"].Lines, tail)
	add("preamble lookalikes", junk["lone-sep"].Lines, junk["one-line"].Lines, junk["sep+warn"].Lines, tail[:1], dumps["dump-ends-in-elision"].Lines, tail)
	add("crlf dump then race", dumps["dump-crlf"].Lines, tail[:2], dumps["race-report"].Lines, tail[2:])
	// bulk: more text than the 16 KiB line buffer on each side of a dump, so that reads
	// fill the buffer handed down exactly (only fixed-size deliveries are run on it)
	var bulk []rline.Line
	for i := 0; i < 450; i++ {
		bulk = append(bulk, rline.Line{Text: fmt.Sprintf("log line %04d of a busy program ........................", i), Kind: rline.OTHER})
	}
	add(bulkStreamName, bulk, dumps["dump-plain"].Lines, bulk[:400], tail)
	return
}

const bulkStreamName = "bulk junk dump bulk junk"

func TestVerifC11Process(t *testing.T) {
	r := h.Start("C11")
	defer r.Finish(func(s string) { t.Error(s) })
	os.Setenv("GOTRACEBACK", "all")
	if rv := r.ReplayFile(); rv != nil {
		t.Logf("replay %s: %s", rv.Key, rv.Summary)
		return
	}
	if !processInProcess {
		r.Note("process() is not bound in this tree: the in-process monitor is skipped (the pipe scenarios on the pp binary still run)")
		r.Record("process-monitor skipped", true, "skipped")
		return
	}
	names, streams := c11ProcessStreams()
	cache := map[string]string{}
	seq := 0
	for si, lines := range streams {
		pred := rline.Predict(lines)
		var data []byte
		offsets := []int{0}
		for _, l := range lines {
			data = append(data, l.Bytes()...)
			offsets = append(offsets, len(data))
		}
		isPass := make([]bool, len(lines))
		for _, p := range pred {
			for _, i := range p.Pass {
				isPass[i] = true
			}
		}
		// rendering of each dump and the offset at which its terminating line is complete
		type dumpInfo struct {
			render string
			T      int
		}
		var dumps []dumpInfo
		okStream := true
		for _, p := range pred {
			if p.Gs == nil {
				continue
			}
			seg := linesBytes(lines, p.Dump)
			rr, cached := cache[string(seg)]
			if !cached {
				o, err, pn := plainProcess(bytes.NewReader(seg))
				if err != nil || pn != "" {
					okStream = false
					break
				}
				rr = o
				cache[string(seg)] = rr
			}
			T := len(data) + 1
			if !p.AtEOF {
				last := p.Dump[len(p.Dump)-1]
				if lines[last].Kind == rline.SEP && last == p.Next-1 && p.Gs[0].Race {
					T = offsets[p.Next]
				} else {
					T = offsets[p.Next+1]
				}
			}
			dumps = append(dumps, dumpInfo{rr, T})
		}
		if !okStream {
			continue
		}
		n := len(data)
		try := func(desc string, chunks []int) {
			seq++
			if !r.MineIdx(seq) || r.Expired() {
				return
			}
			key := fmt.Sprintf("process stream%d %s", si, desc)
			v := r.Check(func() *h.Viol {
				var out bytes.Buffer
				cat, msg := "", ""
				hr := &hookReader{chunkReader: chunkReader{data: data, chunks: append([]int{}, chunks...)}}
				hr.onRead = func(D int) {
					if cat != "" {
						return
					}
					got := out.Bytes()
					c := 0
					for c < len(lines) && offsets[c+1] <= D {
						c++
					}
					exemptFrom := c - 1
					if c >= 2 && lines[c-1].Kind == rline.WARN && lines[c-2].Kind == rline.SEP {
						exemptFrom = c - 2
					}
					pos := 0
					for i := 0; i < c && i < exemptFrom; i++ {
						if !isPass[i] {
							continue
						}
						k := bytes.Index(got[pos:], lines[i].Bytes())
						if k < 0 {
							cat, msg = "complete-line-withheld", fmt.Sprintf("source blocks after %d bytes: pass-through line %d %q is complete (and not the last complete line) but has not been written; output so far %q", D, i, trunc(lines[i].Text), trunc(string(got)))
							return
						}
						pos += k + len(lines[i].Bytes())
					}
					pos = 0
					for di, d := range dumps {
						if D < d.T {
							break
						}
						k := bytes.Index(got[pos:], []byte(d.render))
						if k < 0 {
							cat, msg = "rendering-withheld", fmt.Sprintf("source blocks after %d bytes: dump %d ended at offset %d but its rendering has not been written; output so far %q", D, di, d.T, trunc(string(got)))
							return
						}
						pos += k + len(d.render)
					}
				}
				var pn string
				func() {
					defer func() {
						if e := recover(); e != nil {
							pn = fmt.Sprint(e)
						}
					}()
					_ = processFn(hr, &out, renderCfg{pf: styleBase, level: stack.AnyPointer}, false)
				}()
				if pn != "" {
					cat, msg = "panic", pn
				}
				if cat == "" {
					return nil
				}
				vv := &h.Viol{Fingerprint: "C11/process/" + cat, Summary: fmt.Sprintf("process() on stream %q, delivery %s: %s", names[si], desc, msg), Key: key, Kind: "process-monitor"}
				vv.SetInput(data)
				return vv
			})
			o := "ok"
			if v != nil {
				o = v.Fingerprint
			}
			r.Record(key, true, o+fmt.Sprint(si))
		}
		if names[si] == bulkStreamName {
			var perLine []int
			for i := range lines {
				perLine = append(perLine, offsets[i+1]-offsets[i])
			}
			try("line-at-a-time", perLine)
			try("all-at-once", nil)
			for _, sz := range []int{4096, 8192, 16383, 16384, 16385, 20000, 32768} {
				var cs []int
				for o := 0; o < n; o += sz {
					cs = append(cs, sz)
				}
				try(fmt.Sprintf("chunks-of-%d", sz), cs)
				// the same after a first short piece that leaves a partial line in the buffer
				try(fmt.Sprintf("17-then-chunks-of-%d", sz), append([]int{17}, cs...))
				try(fmt.Sprintf("chunks-of-%d-minus-17-after-17", sz), append([]int{17, sz - 17}, cs...))
			}
			continue
		}
		ones := make([]int, n)
		for i := range ones {
			ones[i] = 1
		}
		try("byte-at-a-time", ones)
		var perLine []int
		for i := range lines {
			perLine = append(perLine, offsets[i+1]-offsets[i])
		}
		try("line-at-a-time", perLine)
		try("all-at-once", nil)
		// every split at a line boundary (and one byte before/after), singly and in pairs
		var cand []int
		for _, o := range offsets[1 : len(offsets)-1] {
			cand = append(cand, o-1, o, o+1)
		}
		for i, a := range cand {
			try(fmt.Sprintf("split=%d", a), []int{a})
			for _, b := range cand[i+1:] {
				if b > a {
					try(fmt.Sprintf("splits=%d,%d", a, b), []int{a, b - a})
				}
			}
		}
		if r.Thorough() {
			for a := 1; a < n; a++ {
				try(fmt.Sprintf("split=%d", a), []int{a})
			}
		}
	}
	r.Sample(map[string]any{"part": "process() monitored at every Read", "streams": names})
}

// ---- C17 end to end: pp -html ------------------------------------------------------

var reTagName = regexp.MustCompile(`<(/?[a-zA-Z][a-zA-Z0-9]*)`)

// tagSequence is the sequence of element names a browser would open or close.
func tagSequence(doc string) string {
	var b strings.Builder
	for _, m := range reTagName.FindAllStringSubmatch(doc, -1) {
		b.WriteString(strings.ToLower(m[1]))
		b.WriteByte(' ')
	}
	return b.String()
}

// TestVerifC17CLI: the page written by -html (console pipeline, banner on and off, one and
// two goroutines, dump and race report): text from the dump cannot introduce an element.
// Oracle: the document for a dump carrying a markup payload has exactly the element
// sequence of the document for the same dump with an inert word in its place.
func TestVerifC17CLI(t *testing.T) {
	r := h.Start("C17")
	defer r.Finish(func(s string) { t.Error(s) })
	if rv := r.ReplayFile(); rv != nil {
		t.Logf("replay %s: %s\ninput:\n%s", rv.Key, rv.Summary, rv.Input())
		return
	}
	payloads := []string{"<img src=x onerror=alert(1)>", "</div><script>alert(1)</script>", "\"><svg onload=alert(1)>", "<b>bold</b>", "<a href=javascript:alert(1)>x</a>", "--><h1>x</h1><!--"}
	const inert = "harmlessword"
	shapes := []struct {
		name string
		mk   func(p string) string
	}{
		{"state-one-goroutine", func(p string) string {
			return "goroutine 1 [" + p + "]:\nmain.main()\n\t/a/main.go:10 +0x1\n"
		}},
		{"state-two-goroutines", func(p string) string {
			return "goroutine 1 [running]:\nmain.main()\n\t/a/main.go:10 +0x1\n\ngoroutine 2 [" + p + "]:\nmain.f(0x1)\n\t/a/f.go:2 +0x1\n"
		}},
		{"path-one-goroutine", func(p string) string {
			return "goroutine 1 [running]:\nmain.main()\n\t/a/" + strings.ReplaceAll(p, " ", "_") + "/main.go:10 +0x1\n"
		}},
		{"race-state", func(p string) string {
			return "==================\nWARNING: DATA RACE\nWrite at 0x00c000014100 by goroutine 7:\n  main.w()\n      /a/r.go:5 +0x3a\n\nGoroutine 7 (" + strings.NewReplacer("(", "", ")", "").Replace(p) + ") created at:\n  main.main()\n      /a/r.go:20 +0x5c\n==================\n"
		}},
	}
	htmlFile := filepath.Join(os.Getenv("VERIF_SCRATCH"), fmt.Sprintf("c17cli-%d.html", r.Shard))
	defer os.Remove(htmlFile)
	render := func(in string, banner bool, rebase bool) (string, string) {
		_ = os.Remove(htmlFile)
		cfg := renderCfg{pf: styleBase, level: stack.AnyPointer, html: htmlFile, banner: banner, rebase: rebase}
		_, err, p := cfgProcess(strings.NewReader(in), cfg)
		if p != "" {
			return "", "panic: " + p
		}
		if err != nil {
			return "", "error: " + err.Error()
		}
		b, rerr := os.ReadFile(htmlFile)
		if rerr != nil {
			return "", "no page written"
		}
		return string(b), ""
	}
	seq := 0
	for _, sh := range shapes {
		for pi, pl := range payloads {
			for _, banner := range []bool{false, true} {
				for _, rebase := range []bool{false, true} {
					seq++
					if !r.MineIdx(seq) || r.Expired() {
						continue
					}
					key := fmt.Sprintf("html-cli %s payload%d banner=%v rebase=%v", sh.name, pi, banner, rebase)
					in := sh.mk(pl)
					v := r.Check(func() *h.Viol {
						mk := func(fp, msg string) *h.Viol {
							v := &h.Viol{Fingerprint: "C17/cli/" + fp, Summary: fmt.Sprintf("pp -html, %s, banner=%v rebase=%v, payload %q: %s", sh.name, banner, rebase, pl, msg), Key: key, Kind: "html-cli"}
							v.SetInput([]byte(in))
							return v
						}
						doc, bad := render(in, banner, rebase)
						twin, bad2 := render(sh.mk(inert), banner, rebase)
						if bad != "" || bad2 != "" {
							if strings.HasPrefix(bad, "error") || (bad == "" && strings.HasPrefix(bad2, "error")) {
								return nil // with this payload the text is not a well formed dump: nothing to render
							}
							return mk("render-failed", bad+" / twin: "+bad2)
						}
						if a, b := tagSequence(doc), tagSequence(twin); a != b {
							v := mk("dump-text-introduces-an-element:"+sh.name, "the page's element sequence differs from that of the same dump with an inert word in place of the payload")
							v.Expected, v.Observed = trunc(b), trunc(a)
							return v
						}
						return nil
					})
					o := "ok"
					if v != nil {
						o = v.Fingerprint
					}
					r.Record(key, true, o)
				}
			}
		}
	}
}
