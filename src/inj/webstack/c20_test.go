//go:build verif

package webstack

// C20: a live process can always snapshot itself. Quiescent workloads: every
// multiset of <= 3 (thorough 4) goroutines from 14 kinds (three of them generic instantiations), parked with known call
// chains; the runtime's own dump must parse into exactly the runtime's goroutines
// with the known ones showing their states, frames and creators; the full product
// of request parameters goes through the real handler.

import (
	"bytes"
	"fmt"
	"io"
	"net/http"
	"net/http/httptest"
	"os"
	"regexp"
	"runtime"
	"strings"
	"sync"
	"testing"
	"time"

	"github.com/maruel/panicparse/v2/internal/verifx/h"
	"github.com/maruel/panicparse/v2/stack"
)

type ctl struct {
	release chan struct{}
	ready   *sync.WaitGroup
	done    *sync.WaitGroup
	extra   []func() // additional unblock actions
	mu      sync.Mutex
}

func (c *ctl) onRelease(f func()) {
	c.mu.Lock()
	c.extra = append(c.extra, f)
	c.mu.Unlock()
}

type workKind struct {
	name    string
	marker  string   // function name that must appear in the goroutine's stack ("" = goroutine is gone)
	states  []string // allowed states
	locked  bool
	minFrames int
	run     func(c *ctl, id int)
	direct  bool // run is called from the starting goroutine itself (it spawns and returns)
}

//go:noinline
func parkChanRecv(c *ctl, id int) { c.ready.Done(); <-c.release }

//go:noinline
func parkChanSend(c *ctl, id int) {
	ch := make(chan int)
	c.onRelease(func() { <-ch })
	c.ready.Done()
	ch <- id
}

//go:noinline
func parkSelect(c *ctl, id int) {
	other := make(chan int)
	c.ready.Done()
	select {
	case <-c.release:
	case <-other:
	}
}

//go:noinline
func parkMutex(c *ctl, id int) {
	var mu sync.Mutex
	mu.Lock()
	c.onRelease(mu.Unlock)
	c.ready.Done()
	mu.Lock()
}

//go:noinline
func parkCond(c *ctl, id int) {
	var mu sync.Mutex
	cond := sync.NewCond(&mu)
	released := false
	c.onRelease(func() { mu.Lock(); released = true; mu.Unlock(); cond.Broadcast() })
	mu.Lock()
	c.ready.Done()
	for !released {
		cond.Wait()
	}
	mu.Unlock()
}

//go:noinline
func parkWaitGroup(c *ctl, id int) {
	var wg sync.WaitGroup
	wg.Add(1)
	c.onRelease(wg.Done)
	c.ready.Done()
	wg.Wait()
}

//go:noinline
func parkSleep(c *ctl, id int) {
	c.ready.Done()
	// sleeps in slices so that it can be released
	for {
		select {
		case <-c.release:
			return
		default:
		}
		time.Sleep(1500 * time.Millisecond)
	}
}

//go:noinline
func parkPipeRead(c *ctl, id int) {
	r, w, err := os.Pipe()
	if err != nil {
		c.ready.Done()
		<-c.release
		return
	}
	c.onRelease(func() { w.Close() })
	c.ready.Done()
	var b [1]byte
	_, _ = r.Read(b[:])
	r.Close()
}

//go:noinline
func parkLocked(c *ctl, id int) {
	runtime.LockOSThread()
	defer runtime.UnlockOSThread()
	c.ready.Done()
	<-c.release
}

//go:noinline
func parkDeep(c *ctl, id, depth int) int {
	if depth == 0 {
		c.ready.Done()
		<-c.release
		return id
	}
	return parkDeep(c, id, depth-1) + 1
}

type pair struct{ a, b int }

// parkGeneric is instantiated with argument layouts of different shapes; all
// instantiations print as parkGeneric[...] on the same line.
//
//go:noinline
func parkGeneric[T any](c *ctl, v T) T {
	c.ready.Done()
	<-c.release
	return v
}

// generic goroutines are started from one generic launcher so that all
// instantiations share every frame and the creation site.
//
//go:noinline
func launchGeneric[T any](c *ctl, v T) {
	c.done.Add(1)
	go parkGenericTop(c, v)
}

//go:noinline
func parkGenericTop[T any](c *ctl, v T) {
	defer c.done.Done()
	parkGeneric(c, v)
}

var workKinds = []workKind{
	{"chan-receive", "parkChanRecv", []string{"chan receive"}, false, 1, parkChanRecv, false},
	{"chan-send", "parkChanSend", []string{"chan send"}, false, 1, parkChanSend, false},
	{"select", "parkSelect", []string{"select"}, false, 1, parkSelect, false},
	{"mutex", "parkMutex", []string{"sync.Mutex.Lock", "semacquire"}, false, 1, parkMutex, false},
	{"cond", "parkCond", []string{"sync.Cond.Wait"}, false, 1, parkCond, false},
	{"waitgroup", "parkWaitGroup", []string{"semacquire", "sync.WaitGroup.Wait"}, false, 1, parkWaitGroup, false},
	{"sleep", "parkSleep", []string{"sleep"}, false, 1, parkSleep, false},
	{"io-wait", "parkPipeRead", []string{"IO wait"}, false, 1, parkPipeRead, false},
	{"locked-to-thread", "parkLocked", []string{"chan receive"}, true, 1, parkLocked, false},
	{"deep-recursion", "parkDeep", []string{"chan receive"}, false, 100, func(c *ctl, id int) { parkDeep(c, id, 200) }, false},
	{"exited", "", nil, false, 0, func(c *ctl, id int) { c.ready.Done() }, false},
	{"generic-int", "parkGeneric[...]", []string{"chan receive"}, false, 1, func(c *ctl, id int) { launchGeneric(c, id) }, true},
	{"generic-struct", "parkGeneric[...]", []string{"chan receive"}, false, 1, func(c *ctl, id int) { launchGeneric(c, pair{id, 2}) }, true},
	{"generic-string", "parkGeneric[...]", []string{"chan receive"}, false, 1, func(c *ctl, id int) { launchGeneric(c, "abc") }, true},
}

//go:noinline
func launch(c *ctl, k *workKind, id int) {
	c.done.Add(1)
	go func() {
		defer c.done.Done()
		k.run(c, id)
	}()
}

var reHeaderLine = regexp.MustCompile(`(?m)^goroutine \d+ [^\n]*\[[^\]\n]+\]:$`)

// liveDump takes the runtime's dump of all goroutines from a known frame.
//
//go:noinline
func liveDump() []byte {
	buf := make([]byte, 1<<20)
	for {
		n := runtime.Stack(buf, true)
		if n < len(buf) {
			return buf[:n]
		}
		buf = make([]byte, 2*len(buf))
	}
}

func settle() {
	for i := 0; i < 50; i++ {
		runtime.Gosched()
	}
	time.Sleep(2 * time.Millisecond)
	for i := 0; i < 50; i++ {
		runtime.Gosched()
	}
}

type workload struct {
	c     *ctl
	kinds []int
}

var bumpOnce sync.Once

// bumpIDs burns goroutine ids so that every goroutine started afterwards - the
// launchers in particular - has an id of several digits.
func bumpIDs() {
	bumpOnce.Do(func() {
		var wg sync.WaitGroup
		for i := 0; i < 120; i++ {
			wg.Add(1)
			go wg.Done()
		}
		wg.Wait()
	})
}

func startWorkload(kinds []int) *workload {
	bumpIDs()
	c := &ctl{release: make(chan struct{}), ready: &sync.WaitGroup{}, done: &sync.WaitGroup{}}
	c.ready.Add(len(kinds))
	started := make(chan struct{})
	go func() { // the launcher goroutine has a multi-digit id
		defer close(started)
		for i, k := range kinds {
			if workKinds[k].direct {
				workKinds[k].run(c, 1000+i)
			} else {
				launch(c, &workKinds[k], 1000+i)
			}
		}
	}()
	<-started
	c.ready.Wait()
	settle()
	return &workload{c, kinds}
}

func (w *workload) stop() {
	close(w.c.release)
	w.c.mu.Lock()
	ex := w.c.extra
	w.c.mu.Unlock()
	for _, f := range ex {
		f()
	}
	w.c.done.Wait()
	settle()
}

// checkLive parses the runtime's dump and compares it with what is known.
func checkLive(kinds []int, key string) *h.Viol {
	w := startWorkload(kinds)
	defer w.stop()
	var dump []byte
	var s *stack.Snapshot
	var err error
	var panicked string
	nRuntime := 0
	// a goroutine may still be on its way into its blocking call: retry a few times
	for attempt := 0; attempt < 20; attempt++ {
		nRuntime = runtime.NumGoroutine()
		dump = liveDump()
		if nRuntime == runtime.NumGoroutine() && !bytes.Contains(dump, []byte("[runnable")) {
			break
		}
		settle()
	}
	mk := func(fp, msg string) *h.Viol {
		v := &h.Viol{Fingerprint: "C20/" + fp, Summary: fmt.Sprintf("workload %s: %s", key, msg), Key: key, Kind: "live"}
		v.SetInput(dump)
		return v
	}
	func() {
		defer func() {
			if e := recover(); e != nil {
				panicked = fmt.Sprint(e)
			}
		}()
		opts := stack.DefaultOpts()
		opts.AnalyzeSources = false
		s, _, err = stack.ScanSnapshot(bytes.NewReader(dump), io.Discard, opts)
	}()
	if panicked != "" {
		return mk("panic:"+panicked, "parsing the live dump panicked: "+panicked)
	}
	if err != nil && err != io.EOF {
		return mk("parse-error", "the live dump does not parse: "+err.Error())
	}
	if s == nil {
		return mk("no-snapshot", "the live dump was not recognised")
	}
	headers := len(reHeaderLine.FindAll(dump, -1))
	if len(s.Goroutines) != headers {
		return mk("goroutine-count-vs-headers", fmt.Sprintf("%d goroutines parsed, the dump has %d header lines", len(s.Goroutines), headers))
	}
	if headers != nRuntime {
		return mk("goroutine-count-vs-runtime", fmt.Sprintf("%d goroutines parsed, the runtime reports %d", headers, nRuntime))
	}
	if !s.Goroutines[0].First {
		return mk("first", "the first goroutine is not flagged")
	}
	// the dumping goroutine shows liveDump in its stack and is running
	foundSelf := false
	for _, c := range s.Goroutines[0].Stack.Calls {
		if strings.HasSuffix(c.Func.Name, "liveDump") {
			foundSelf = true
		}
	}
	if !foundSelf || s.Goroutines[0].State != "running" {
		return mk("self", fmt.Sprintf("the first goroutine (state %q) is not the one that took the dump", s.Goroutines[0].State))
	}
	// known goroutines
	want := map[string]int{}
	for _, k := range kinds {
		if workKinds[k].marker != "" {
			want[workKinds[k].marker]++
		}
	}
	got := map[string]int{}
	for _, g := range s.Goroutines[1:] {
		seenMarker := map[string]bool{}
		for _, k := range workKinds {
			if k.marker == "" || seenMarker[k.marker] {
				continue
			}
			seenMarker[k.marker] = true
			idx := -1
			for i, c := range g.Stack.Calls {
				if c.Func.Name == k.marker && strings.HasSuffix(c.Func.ImportPath, "webstack") {
					idx = i
					break
				}
			}
			if idx < 0 {
				continue
			}
			got[k.marker]++
			okState := false
			for _, st := range k.states {
				if g.State == st {
					okState = true
				}
			}
			if !okState {
				return mk("state:"+k.name, fmt.Sprintf("goroutine parked in %s has state %q, want one of %q", k.marker, g.State, k.states))
			}
			if g.Locked != k.locked {
				return mk("locked:"+k.name, fmt.Sprintf("goroutine parked in %s has Locked=%v", k.marker, g.Locked))
			}
			if len(g.Stack.Calls) < k.minFrames {
				return mk("frames:"+k.name, fmt.Sprintf("goroutine parked in %s has %d frames, want >= %d", k.marker, len(g.Stack.Calls), k.minFrames))
			}
			if k.minFrames >= 100 && !g.Stack.Elided {
				return mk("elided:"+k.name, "a 200-deep stack is not marked elided")
			}
			// frames in order: marker ... launch.func1 at the bottom (unless elided)
			last := g.Stack.Calls[len(g.Stack.Calls)-1]
			wantBottom, wantCreator := "launch.func", "launch"
			if strings.HasPrefix(k.marker, "parkGeneric") {
				wantBottom, wantCreator = "parkGenericTop[...]", "launchGeneric[...]"
			}
			if !strings.Contains(last.Func.Name, wantBottom) {
				return mk("bottom-frame:"+k.name, fmt.Sprintf("goroutine parked in %s: bottom frame is %q, want the launcher closure", k.marker, last.Func.Name))
			}
			if !strings.HasSuffix(last.SrcName, ".go") || last.Line <= 0 {
				return mk("bottom-frame-file:"+k.name, fmt.Sprintf("bottom frame file %q line %d", last.SrcName, last.Line))
			}
			if len(g.CreatedBy.Calls) != 1 || g.CreatedBy.Calls[0].Func.Name != wantCreator {
				cb := "<none>"
				if len(g.CreatedBy.Calls) == 1 {
					cb = g.CreatedBy.Calls[0].Func.Name
				}
				return mk("creator:"+k.name, fmt.Sprintf("goroutine parked in %s: creator %q, want %s", k.marker, cb, wantCreator))
			}
		}
	}
	for m, n := range want {
		if got[m] != n {
			return mk("known-goroutine-missing", fmt.Sprintf("%d goroutines parked in %s found, %d were started", got[m], m, n))
		}
	}
	for m, n := range got {
		if want[m] != n {
			return mk("known-goroutine-extra", fmt.Sprintf("%d goroutines parked in %s found, %d were started", n, m, want[m]))
		}
	}
	return nil
}

var reRoutines = regexp.MustCompile(`(\d+) routines?:`)

// checkRequests drives the full product of request parameters through the handler.
func checkRequests(r *h.Run, kinds []int, wname string) {
	w := startWorkload(kinds)
	defer w.stop()
	methods := []string{"GET", "HEAD", "POST", "PUT"}
	sims := []string{"", "exactflags", "exactlines", "anypointer", "anyvalue", "bogus"}
	augs := []string{"", "0", "1", "2", "-1", "x"}
	mems := []string{"", "1", "1048576", "2097152", "-5", "x"}
	for _, m := range methods {
		for _, sim := range sims {
			for _, aug := range augs {
				for _, mem := range mems {
					q := []string{}
					if sim != "" {
						q = append(q, "similarity="+sim)
					}
					if aug != "" {
						q = append(q, "augment="+aug)
					}
					if mem != "" {
						q = append(q, "maxmem="+mem)
					}
					url := "/debug?" + strings.Join(q, "&")
					key := fmt.Sprintf("request %s %s on %s", m, url, wname)
					validParams := sim != "bogus" && (aug == "" || aug == "0" || aug == "1") && mem != "x"
					v := r.Check(func() *h.Viol {
						req := httptest.NewRequest(m, url, nil)
						rec := httptest.NewRecorder()
						var pn string
						nBefore := runtime.NumGoroutine()
						func() {
							defer func() {
								if e := recover(); e != nil {
									pn = fmt.Sprint(e)
								}
							}()
							SnapshotHandler(rec, req)
						}()
						mk := func(fp, msg string) *h.Viol {
							return &h.Viol{Fingerprint: "C20/request/" + fp, Summary: key + ": " + msg, Key: key, Kind: "request", Observed: truncS(rec.Body.String())}
						}
						if pn != "" {
							return mk("panic", "the handler panicked: "+pn)
						}
						code := rec.Code
						switch {
						case m != "GET" || !validParams:
							if code < 400 || code > 499 {
								return mk(fmt.Sprintf("invalid-request-status-%d", code), fmt.Sprintf("status %d for an invalid method or parameter, want 4xx", code))
							}
						default:
							if code != 200 {
								return mk(fmt.Sprintf("valid-request-status-%d", code), fmt.Sprintf("status %d for a valid GET, want 200", code))
							}
							if ct := rec.Header().Get("Content-Type"); !strings.HasPrefix(ct, "text/html") {
								return mk("content-type", "Content-Type "+ct)
							}
							body := rec.Body.String()
							if !strings.Contains(body, "</div>") || !strings.Contains(body, "bottom-padding") {
								return mk("incomplete-page", "the page is not complete")
							}
							sum := 0
							for _, mm := range reRoutines.FindAllStringSubmatch(body, -1) {
								var n int
								fmt.Sscan(mm[1], &n)
								sum += n
							}
							// source analysis is on unless augment=0: the known frames then carry typed arguments
							{
								// the handler's own frame comes from a real source file of the repository
								typed := strings.Contains(body, "*Request(")
								if aug == "0" && typed {
									return mk("augmented-although-disabled", "augment=0 but the page shows typed arguments")
								}
								if aug != "0" && !typed {
									return mk("not-augmented", "source analysis is enabled for this request but the page shows no typed arguments for the known frames")
								}
							}
							if sum != nBefore {
								return mk("page-does-not-account-for-all-goroutines", fmt.Sprintf("bucket sizes add up to %d, the runtime has %d goroutines", sum, nBefore))
							}
						}
						return nil
					})
					out := "ok"
					if v != nil {
						out = v.Fingerprint
					}
					r.Record(key, true, fmt.Sprintf("%s valid=%v method=%s", out, validParams, m))
					r.Add("requests", 1)
				}
			}
		}
	}
}

func truncS(s string) string {
	if len(s) > 400 {
		return s[:300] + "..." + s[len(s)-80:]
	}
	return s
}

func TestVerifC20(t *testing.T) {
	r := h.Start("C20")
	defer r.Finish(func(s string) { t.Error(s) })
	if rv := r.ReplayFile(); rv != nil {
		t.Logf("replay %s: %s", rv.Key, rv.Summary)
		if in := rv.Input(); len(in) > 0 {
			s, _, err := stack.ScanSnapshot(bytes.NewReader(in), io.Discard, &stack.Opts{})
			n := -1
			if s != nil {
				n = len(s.Goroutines)
			}
			t.Logf("stored dump re-parsed: %d goroutines, err=%v, %d header lines", n, err, len(reHeaderLine.FindAll(in, -1)))
		}
		return
	}
	maxSize := r.Pick(3, 4)
	r.Set("rule", fmt.Sprintf("quiescent workloads: every multiset of <= %d goroutines from %d kinds (chan receive, chan send, select, sync.Mutex, sync.Cond, WaitGroup, sleep, pipe read = IO wait, locked to thread, 200-deep recursion, just exited, three instantiations of a generic function with different argument layouts), parked with known call chains; runtime.Stack(all) taken from a known frame and parsed: nil/EOF error, goroutine count = header lines = runtime.NumGoroutine, the first goroutine is the dumping one, every known goroutine present once with a state from its kind's allowed set, lock flag, frame count, elision, launcher closure at the bottom, creator; plus the full product method {GET,HEAD,POST,PUT} x similarity {absent, 4 valid, bogus} x augment {absent,0,1,2,-1,x} x maxmem {absent,1,1048576,2097152,-5,x} = 864 requests through the real SnapshotHandler on 3 workloads: valid GET => 200 text/html complete page whose bucket sizes add up to the number of goroutines, anything else => 4xx. non-trivial = >= 2 goroutines in the workload or a request; distinct = workload multiset / request", maxSize, len(workKinds)))
	r.Set("assumptions", []string{"the Go runtime's scheduler cannot be put under a controlled scheduler: runtime states reachable only under churn and concurrent request interleavings are exercised by the non-exhaustive churn supplement, not decided", "allowed state strings per kind cover the installed toolchain and its neighbours", "numeric maxmem values below the documented minimum are clamped, not invalid"})
	part := os.Getenv("VERIF_PART")
	if part == "churn" {
		churn(t, r)
		return
	}
	seq := 0
	var rec func(cur []int, from int)
	rec = func(cur []int, from int) {
		if len(cur) > 0 {
			seq++
			if r.MineIdx(seq) && !r.Expired() {
				kinds := append([]int{}, cur...)
				var names []string
				for _, k := range kinds {
					names = append(names, workKinds[k].name)
				}
				key := strings.Join(names, "+")
				v := r.Check(func() *h.Viol { return checkLive(kinds, key) })
				out := "ok"
				if v != nil {
					out = v.Fingerprint
				}
				r.Record("workload "+key, len(kinds) >= 2, out+" "+key)
				if seq%37 == 0 {
					r.Sample(map[string]any{"workload": names})
				}
			}
		}
		if len(cur) == maxSize {
			return
		}
		for k := from; k < len(workKinds); k++ {
			rec(append(cur, k), k)
		}
	}
	rec(nil, 0)
	if r.Shard == 0 {
		checkRequests(r, nil, "empty")
	}
	if r.Shard == 1%r.N {
		checkRequests(r, []int{0, 1, 2, 3, 8}, "five-goroutines")
	}
	if r.Shard == 3%r.N {
		checkBigDump(r)
	}
	if r.Shard == 2%r.N {
		checkRequests(r, []int{0, 0, 0, 4, 5, 6, 7, 9, 9, 10, 12, 11, 13, 11, 12}, "fifteen-goroutines")
	}
}

// checkBigDump: a dump larger than the first 1 MiB buffer with maxmem values that
// are not 1 MiB times a power of two.
func checkBigDump(r *h.Run) {
	deep := 0
	for i, k := range workKinds {
		if k.name == "deep-recursion" {
			deep = i
		}
	}
	// a medium dump first (below the documented 1 MiB floor of maxmem: every maxmem
	// value, however small, must be enough), requested after the process was served
	// while it was small; then the large one
	SnapshotHandler(httptest.NewRecorder(), httptest.NewRequest("GET", "/debug?augment=0&maxmem=1", nil))
	checkDumpOfSize(r, deep, 30, func(size int) []int {
		if size >= 1<<20 {
			return nil
		}
		return []int{1, 4096, size / 2, size + 1, 1 << 20, 0}
	})
	checkDumpOfSize(r, deep, 90, func(size int) []int {
		r.Set("big_dump_bytes", size)
		if size <= 1<<20 {
			r.Note("big-dump workload produced only %d bytes; the large-buffer requests are not exercised", size)
			return nil
		}
		return []int{size + size/10, size + 4096, 3 * size, 64 << 20}
	})
	// dumps that need two and three doublings of the first buffer (seed C20-12A: one
	// estimate plus a single retry), with the default and with sufficient maxmem
	for _, n := range []int{200, 360} {
		n := n
		checkDumpOfSize(r, deep, n, func(size int) []int {
			r.Set(fmt.Sprintf("big_dump_bytes_%d", n), size)
			if size <= 2<<20 {
				r.Note("%d deep goroutines produced only %d bytes; the repeated-doubling requests are not exercised", n, size)
				return nil
			}
			return []int{0, 64 << 20, size + size/10}
		})
	}
}

// checkDumpOfSize parks n deep goroutines and requests the page with each maxmem
// value (0: parameter absent); every one of them is sufficient by construction.
func checkDumpOfSize(r *h.Run, deep, n int, mems func(size int) []int) {
	var kinds []int
	for i := 0; i < n; i++ {
		kinds = append(kinds, deep)
	}
	w := startWorkload(kinds)
	defer w.stop()
	size := len(liveDump())
	for _, mem := range mems(size) {
		q := fmt.Sprintf("/debug?augment=0&maxmem=%d", mem)
		if mem == 0 {
			q = "/debug?augment=0"
		}
		key := fmt.Sprintf("request GET %s on a dump of %d deep goroutines", q, n)
		v := r.Check(func() *h.Viol {
			req := httptest.NewRequest("GET", q, nil)
			rec := httptest.NewRecorder()
			nBefore := runtime.NumGoroutine()
			SnapshotHandler(rec, req)
			mk := func(fp, msg string) *h.Viol {
				return &h.Viol{Fingerprint: "C20/request/big-dump:" + fp, Summary: key + ": " + msg, Key: key, Kind: "request", Observed: truncS(rec.Body.String())}
			}
			if rec.Code != 200 {
				return mk(fmt.Sprintf("status-%d", rec.Code), fmt.Sprintf("status %d although maxmem (or its documented 1 MiB floor) is larger than the %d byte dump", rec.Code, size))
			}
			sum := 0
			for _, mm := range reRoutines.FindAllStringSubmatch(rec.Body.String(), -1) {
				var n int
				fmt.Sscan(mm[1], &n)
				sum += n
			}
			if sum != nBefore {
				return mk("page-does-not-account-for-all-goroutines", fmt.Sprintf("bucket sizes add up to %d, the runtime has %d goroutines", sum, nBefore))
			}
			return nil
		})
		r.Record(key, true, "big")
		r.Add("requests", 1)
		if v != nil && n > 90 {
			// already reported; on a broken tree the remaining multi-megabyte requests
			// only cost time (seed C20-2C: pages pile up in a recycled buffer)
			break
		}
	}
}

// churn is the non-exhaustive supplement: concurrent requests while goroutines
// are created, blocked and destroyed. Only input-level oracles.
func churn(t *testing.T, r *h.Run) {
	if r.Shard != 0 {
		return
	}
	stop := make(chan struct{})
	var wg sync.WaitGroup
	for i := 0; i < 32; i++ {
		wg.Add(1)
		go func(i int) {
			defer wg.Done()
			for {
				select {
				case <-stop:
					return
				default:
				}
				w := startWorkloadNoSettle([]int{i % 10, (i + 3) % 10})
				time.Sleep(time.Duration(i%5) * time.Millisecond)
				w.stopNoSettle()
			}
		}(i)
	}
	srv := httptest.NewServer(http.HandlerFunc(SnapshotHandler))
	defer srv.Close()
	var rwg sync.WaitGroup
	var mu sync.Mutex
	for c := 0; c < 8; c++ {
		rwg.Add(1)
		go func(c int) {
			defer rwg.Done()
			for i := 0; i < r.Pick(10, 100); i++ {
				resp, err := http.Get(srv.URL + "/debug?augment=0&similarity=" + []string{"anypointer", "anyvalue", "exactlines", "exactflags"}[(c+i)%4])
				if err != nil {
					continue
				}
				body, _ := io.ReadAll(resp.Body)
				resp.Body.Close()
				mu.Lock()
				if resp.StatusCode != 200 || !bytes.Contains(body, []byte("bottom-padding")) {
					r.Report(&h.Viol{Fingerprint: fmt.Sprintf("C20/churn/status-%d", resp.StatusCode), Summary: fmt.Sprintf("concurrent request under churn: status %d, complete=%v", resp.StatusCode, bytes.Contains(body, []byte("bottom-padding"))), Key: "churn", Observed: truncS(string(body)), Reproduced: 1})
				}
				r.Record(fmt.Sprintf("churn %d %d", c, i), true, fmt.Sprint(resp.StatusCode))
				r.Add("churn_requests", 1)
				mu.Unlock()
			}
		}(c)
	}
	rwg.Wait()
	close(stop)
	wg.Wait()
	// dumps taken under churn must parse
	r.Set("churn_note", "non-exhaustive supplement (runtime scheduling is not under harness control); evidence exhaustive=false for this part")
}

func startWorkloadNoSettle(kinds []int) *workload {
	c := &ctl{release: make(chan struct{}), ready: &sync.WaitGroup{}, done: &sync.WaitGroup{}}
	c.ready.Add(len(kinds))
	for i, k := range kinds {
		if workKinds[k].direct {
			workKinds[k].run(c, 1000+i)
		} else {
			launch(c, &workKinds[k], 1000+i)
		}
	}
	c.ready.Wait()
	return &workload{c, kinds}
}

func (w *workload) stopNoSettle() {
	close(w.c.release)
	w.c.mu.Lock()
	ex := w.c.extra
	w.c.mu.Unlock()
	for _, f := range ex {
		f()
	}
	w.c.done.Wait()
}
