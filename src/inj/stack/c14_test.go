//go:build verif

package stack

// C14: snapshots are immutable under aggregation/rendering; the API is safe for
// concurrent use. (a) all operation histories up to a bounded length on pairs of
// live snapshots: the canonical state (snapshots, options, package-level
// variables) must never change and every result must equal the result on a
// freshly parsed snapshot; this includes scans through readers of different
// behaviour followed by further scans (no state leaks between calls: C06).
// (c) a free-running pass under the race detector: every ordered pair and triple
// of operations on a shared snapshot and shared options, released from a barrier.

import (
	"bytes"
	"fmt"
	"html/template"
	"os"
	"strings"
	"sync"
	"testing"

	"github.com/maruel/panicparse/v2/internal/verifx/gen"
	"github.com/maruel/panicparse/v2/internal/verifx/h"
)

type c14Input struct {
	name   string
	text   []byte
	mkOpts func() *Opts // nil: &Opts{NameArguments: true}
}

func (in *c14Input) opts() *Opts {
	if in.mkOpts != nil {
		return in.mkOpts()
	}
	return &Opts{NameArguments: true}
}

// c14FSRoot is a scratch file tree shared by the inputs that guess paths.
var c14FSRoot string

func c14Inputs() []c14Input {
	env := genEnv()
	var out []c14Input
	add := func(name string, b []byte) { out = append(out, c14Input{name: name, text: b}) }
	g := func(id int, state, fn, args, file string, line int) string {
		return fmt.Sprintf("goroutine %d [%s]:\n%s(%s)\n\t%s:%d +0x1\n\n", id, state, fn, args, file, line)
	}
	// merges with shared argument slices: values differ, pointers differ, nested, sleep/lock differ
	add("merge-values", []byte("panic: x\n\n"+g(1, "running", "main.main", "", "/a/m.go", 1)+g(2, "select", "main.worker", "0x1, {0x2, 0x3}", "/a/w.go", 10)+g(3, "select", "main.worker", "0x1, {0x2, 0x3}", "/a/w.go", 10)+g(4, "select", "main.worker", "0x5, {0x2, 0x7}", "/a/w.go", 10)+"exit status 2\n"))
	add("merge-pointers", []byte(g(1, "running", "main.main", "0xc000012340", "/a/m.go", 1)+g(2, "chan receive, 3 minutes", "main.f", "0xc000012340, 0xc000045678", "/a/w.go", 10)+g(3, "chan receive, 9 minutes, locked to thread", "main.f", "0xc0000789a0, 0xc000045678", "/a/w.go", 10)+g(4, "chan receive", "main.f", "0xc000012340, 0xc0000789a0", "/a/w.go", 10)))
	// identical frames and arguments, different wait time / lock flag: the merge changes nothing but the range
	add("merge-sleep-lock", []byte(g(1, "running", "main.main", "", "/a/m.go", 1)+g(7, "select, 2 minutes", "main.worker", "0x1, 0x2", "/a/w.go", 10)+g(8, "select, 9 minutes, locked to thread", "main.worker", "0x1, 0x2", "/a/w.go", 10)+g(9, "select", "main.worker", "0x1, 0x2", "/a/w.go", 10)))
	// vendored frames and creators
	add("vendored", []byte(g(1, "running", "github.com/foo/bar/vendor/github.com/baz/qux.Do", "0x1", "/gp/src/github.com/foo/bar/vendor/github.com/baz/qux/q.go", 5)+strings.TrimSuffix(g(2, "select", "github.com/foo/bar/vendor/github.com/baz/qux.Wait", "0x2", "/gp/src/github.com/foo/bar/vendor/github.com/baz/qux/q.go", 9), "\n")+"created by github.com/foo/bar/vendor/github.com/baz/qux.Start in goroutine 1\n\t/gp/src/github.com/foo/bar/vendor/github.com/baz/qux/q.go:3 +0x1\n\n"))
	add("generated-1", append(append([]byte("panic: boom\n\n"), gen.GenDump(fixedChooser{"goroutines": 2, "g0.stack-shape": 1, "g0.creator": 2, "g0.f0.argshape": 9, "g1.f0.argshape": 9, "g2.f0.argshape": 9, "g1.f0.leafvalues": 3, "g2.minutes": 2}, env).Bytes()...), "exit status 2\n"...))
	add("generated-2", gen.GenDump(fixedChooser{"goroutines": 3, "g0.stack-shape": 4, "g1.stack-shape": 6, "g2.creator": 1, "g3.creator": 1, "g4.locked": 1, "g3.f0.sym": 17, "g4.f0.sym": 17}, env).Bytes())
	rc, _ := gen.GenRace(fixedChooser{"op0.args": 1, "op1.args": 1, "sec0.args": 1})
	add("race-1", append(append([]byte("out\n"), rc.Bytes()...), "after\n"...))
	rc2, _ := gen.GenRace(fixedChooser{"ops": 1, "section-order-0": 2, "op2.write": 1, "op0.frames": 1})
	add("race-2", rc2.Bytes())
	if c14FSRoot != "" {
		R := c14FSRoot
		// source analysis on: typed renderings plus an elided argument list (the renderer
		// appends "..." to the typed list)
		_ = os.MkdirAll(R+"/aug", 0o755)
		_ = os.WriteFile(R+"/aug/go.mod", []byte("module example.com/aug\n"), 0o644)
		_ = os.WriteFile(R+"/aug/main.go", []byte("package main\n\nfunc many(a, b, c, d, e, f, g, h, i, j, k, l int) {\n\tpanic(a)\n}\n\nfunc main() {\n\tmany(1, 2, 3, 4, 5, 6, 7, 8, 9, 10, 11, 12)\n}\n"), 0o644)
		out = append(out, c14Input{name: "augmented-elided", text: []byte(g(1, "running", "main.many", "0x1, 0x2, 0x3, 0x4, 0x5, 0x6, 0x7, 0x8, 0x9, 0xa, ...", R+"/aug/main.go", 4) + g(2, "select", "main.many", "0x1, 0x2, 0x3, 0x4, 0x5, 0x6, 0x7, 0x8, 0x9, 0xb, ...", R+"/aug/main.go", 4)),
			mkOpts: func() *Opts { return &Opts{NameArguments: true, GuessPaths: true, AnalyzeSources: true} }})
		// many distinct standard-library lines in one goroutine: state that is filled in
		// lazily per line on the first rendering gets forty first uses in one run
		{
			var b strings.Builder
			b.WriteString("goroutine 1 [running]:\n")
			for i := 0; i < 40; i++ {
				fmt.Fprintf(&b, "fmt.f%d(0x%x)\n\t/ci/go/src/fmt/print.go:%d +0x1\n", i, i+1, 10+i)
			}
			b.WriteString("\n" + g(2, "select", "example.com/a.A", "0x2", "/ci/gp1/src/example.com/a/a.go", 4))
			out = append(out, c14Input{name: "fs-many-stdlib-frames", text: []byte(b.String()),
				mkOpts: func() *Opts {
					return &Opts{NameArguments: true, GuessPaths: true, LocalGOROOT: R + "/goroot", LocalGOPATHs: []string{R + "/gp1"}}
				}})
		}
		// a vendored frame that path guessing rebased onto the local GOPATH (its relative
		// path, not only its import path, goes through the vendor directory)
		out = append(out, c14Input{name: "fs-vendored-rebased", text: []byte(g(1, "running", "example.com/a/vendor/github.com/x/y.Do", "0x1", "/ci/gp1/src/example.com/a/vendor/github.com/x/y/y.go", 3) + strings.TrimSuffix(g(2, "select", "example.com/a.A", "0x2", "/ci/gp1/src/example.com/a/a.go", 4), "\n") + "created by example.com/a/vendor/github.com/x/y.Start in goroutine 1\n\t/ci/gp1/src/example.com/a/vendor/github.com/x/y/y.go:9 +0x1\n\n"),
			mkOpts: func() *Opts {
				return &Opts{NameArguments: true, GuessPaths: true, LocalGOROOT: R + "/goroot", LocalGOPATHs: []string{R + "/gp1"}}
			}})
		// path guessing with two GOPATHs; the files are found under the second one and under a module
		out = append(out, c14Input{name: "fs-two-gopaths", text: []byte(g(1, "running", "example.com/b.B", "0x1", "/ci/gp/src/example.com/b/b.go", 3) + g(2, "select", "example.com/m.X", "0x1", R+"/m/x.go", 10) + g(3, "select", "example.com/a.A", "0x2", "/ci/gp1/src/example.com/a/a.go", 4) + g(4, "select", "fmt.Println", "", "/ci/go/src/fmt/print.go", 5)),
			mkOpts: func() *Opts {
				return &Opts{NameArguments: true, GuessPaths: true, LocalGOROOT: R + "/goroot", LocalGOPATHs: []string{R + "/gp1", R + "/gp2"}}
			}})
	}
	return out
}

// an operation of the history alphabet
type c14Op struct {
	name string
	run  func(s *Snapshot, in *c14Input, opts *Opts) string
}

func htmlMasked(f func(w *bytes.Buffer) error) string {
	var b bytes.Buffer
	err := f(&b)
	return fmt.Sprintf("err=%v\n%s", err, reCreatedOn.ReplaceAllString(b.String(), "<li>Created on X</li>"))
}

func c14Ops() []c14Op {
	ops := []c14Op{}
	for lv := ExactFlags; lv <= AnyValue; lv++ {
		lv := lv
		ops = append(ops, c14Op{"Aggregate(" + levelNames[lv] + ")", func(s *Snapshot, _ *c14Input, _ *Opts) string {
			return describeBuckets(s.Aggregate(lv))
		}})
	}
	ops = append(ops,
		c14Op{"Aggregate(AnyPointer).ToHTML", func(s *Snapshot, _ *c14Input, _ *Opts) string {
			a := s.Aggregate(AnyPointer)
			return htmlMasked(func(w *bytes.Buffer) error { return a.ToHTML(w, template.HTML("")) })
		}},
		c14Op{"Snapshot.ToHTML", func(s *Snapshot, _ *c14Input, _ *Opts) string {
			return htmlMasked(func(w *bytes.Buffer) error { return s.ToHTML(w, template.HTML("<b>footer</b>")) })
		}},
		c14Op{"IsRace", func(s *Snapshot, _ *c14Input, _ *Opts) string { return fmt.Sprint(s.IsRace()) }},
		c14Op{"ScanSnapshot(same opts)", func(_ *Snapshot, in *c14Input, opts *Opts) string {
			res := scanOnce(bytes.NewReader(in.text), opts)
			return fmt.Sprintf("%s\nprefix=%q suffix=%q err=%v", canonSnapshot(res.snap), res.prefix, res.suffix, res.err)
		}},
		c14Op{"ScanSnapshot(EOF with data)", func(_ *Snapshot, in *c14Input, opts *Opts) string {
			sr := &scriptReader{data: in.text, eofWithData: true}
			res := scanOnce(sr, opts)
			return fmt.Sprintf("%s\nprefix=%q rest=%q err=%v", canonSnapshot(res.snap), res.prefix, append(append([]byte{}, res.suffix...), sr.unread()...), res.err)
		}},
		c14Op{"ScanSnapshot(reader fails mid-way)", func(_ *Snapshot, in *c14Input, opts *Opts) string {
			sr := &scriptReader{data: in.text[:len(in.text)*2/3], failErr: errSentinel, eofWithData: true, chunks: []int{7, 50}}
			res := scanOnce(sr, opts)
			return fmt.Sprintf("%s\nprefix=%q err=%v", canonSnapshot(res.snap), res.prefix, res.err)
		}},
	)
	return ops
}

// c14GlobalsFn serialises the package-level variables of the package under test. It
// is installed by c14_globals_test.go, a separate file, so that a renamed variable
// only costs that part of the state key (the driver drops a harness file that no
// longer compiles when the check can do without it).
var c14GlobalsFn = func() string { return "(package-level variables not bound)" }

func c14Globals() string { return c14GlobalsFn() }

func c14State(a, b *Snapshot, optsA, optsB *Opts) string {
	return canonSnapshot(a) + "\n--\n" + canonSnapshot(b) + "\n--\n" + fmt.Sprintf("%+v %+v", *optsA, *optsB) + "\n--\n" + c14Globals()
}

func TestVerifC14(t *testing.T) {
	r := h.Start("C14")
	defer r.Finish(func(s string) { t.Error(s) })
	if root, err := os.MkdirTemp(os.Getenv("VERIF_SCRATCH"), "c14fs"); err == nil {
		defer os.RemoveAll(root)
		c06FS(root)
		c14FSRoot = root
	}
	inputs := c14Inputs()
	ops := c14Ops()
	if rv := r.ReplayFile(); rv != nil {
		t.Logf("replay %s: %s\nexpected: %s\nobserved: %s", rv.Key, rv.Summary, trunc(rv.Expected), trunc(rv.Observed))
		return
	}
	if envPart() == "race" {
		// a few merge shapes: the second merge of a bucket touches a frame the first left alone
		for _, sh := range c14MergeShapes(false) {
			for _, want := range []string{"shape-f0-n3-m9", "shape-f0-n3-m13", "shape-f0-n3-m6", "shape-f2-n3-m9", "shape-f1-n3-m9"} {
				if sh.name == want {
					inputs = append(inputs, sh)
				}
			}
		}
		c14RacePass(t, r, inputs, ops)
		return
	}
	depth := r.Pick(3, 4)
	r.Set("rule", fmt.Sprintf("history search: operations {Aggregate x4 levels, Aggregated.ToHTML, Snapshot.ToHTML, IsRace, ScanSnapshot with the same *Opts through a plain reader / a reader reporting EOF with the last data / a reader failing mid-way} each addressed to one of two live snapshots; all sequences of length <= %d on %d pairs of snapshots (merging buckets with shared argument slices, race snapshots); after every operation the canonical state (both snapshots deep, the shared *Opts, the package-level variables of package stack) must equal the initial state and the operation's result must equal its result on a freshly parsed snapshot; the same for all sequences of <= 2 aggregation/rendering operations on every 'merge shape' (3, thorough 4, goroutines of one bucket whose two frames each carry one of two arguments, in every combination, x pointers / values / nested aggregates). states = distinct canonical states seen; transitions = operations applied. race pass: every ordered pair and triple of the same operations on a shared snapshot and shared *Opts on real goroutines released from a barrier, free running, under -race", depth, len(inputs)))
	r.Set("assumptions", []string{"the library has no synchronisation primitive, so a cooperative scheduler has no point inside a call to switch at: call-level interleavings are the operation sequences enumerated here", "the happens-before verdict of the race detector for synchronisation-free deterministic bodies does not depend on timing; residual limits: 4 shadow cells per word, executed paths only", "console renderers (package internal) are pure functions of the aggregation and are covered by C16"})
	states := map[string]struct{}{}
	// fresh results
	fresh := make([][]string, len(inputs))
	for i := range inputs {
		for _, op := range ops {
			s := scanOnce(bytes.NewReader(inputs[i].text), inputs[i].opts()).snap
			fresh[i] = append(fresh[i], op.run(s, &inputs[i], inputs[i].opts()))
		}
	}
	seq := 0
	for pi := range inputs {
		ia, ib := pi, (pi+1)%len(inputs)
		nOps := len(ops) * 2
		var rec func(hist []int)
		run := func(hist []int) {
			seq++
			if !r.MineIdx(seq) || r.Expired() {
				return
			}
			key := fmt.Sprintf("pair(%s,%s) ops%v", inputs[ia].name, inputs[ib].name, hist)
			v := r.Check(func() *h.Viol {
				optsA, optsB := inputs[ia].opts(), inputs[ib].opts()
				A := scanOnce(bytes.NewReader(inputs[ia].text), optsA).snap
				B := scanOnce(bytes.NewReader(inputs[ib].text), optsB).snap
				if A == nil || B == nil {
					return nil
				}
				// the scans that produced A and B are operations on the caller's options too
				for _, oc := range []struct {
					got  *Opts
					want *Opts
					in   string
				}{{optsA, inputs[ia].opts(), inputs[ia].name}, {optsB, inputs[ib].opts(), inputs[ib].name}} {
					if g, w := fmt.Sprintf("%+v", *oc.got), fmt.Sprintf("%+v", *oc.want); g != w {
						return &h.Viol{Fingerprint: "C14/state-changed:options:by:ScanSnapshot", Summary: "ScanSnapshot on input " + oc.in + " changed the caller's Opts", Key: key, Kind: "history", Expected: trunc(w), Observed: trunc(g)}
					}
				}
				init := c14State(A, B, optsA, optsB)
				states[init] = struct{}{}
				var names []string
				for step, o := range hist {
					op := ops[o%len(ops)]
					tgt, in, fr, opts := A, &inputs[ia], fresh[ia], optsA
					which := "A"
					if o >= len(ops) {
						tgt, in, fr, opts = B, &inputs[ib], fresh[ib], optsB
						which = "B"
					}
					names = append(names, op.name+" on "+which)
					var got string
					var pn string
					func() {
						defer func() {
							if e := recover(); e != nil {
								pn = fmt.Sprint(e)
							}
						}()
						got = op.run(tgt, in, opts)
					}()
					r.Add("transitions", 1)
					mk := func(fp, msg string) *h.Viol {
						return &h.Viol{Fingerprint: "C14/" + fp, Summary: fmt.Sprintf("after %s: %s", strings.Join(names, " ; "), msg), Key: key, Kind: "history", Extra: map[string]any{"history": names, "snapshot_A": inputs[ia].name, "snapshot_B": inputs[ib].name}}
					}
					if pn != "" {
						return mk("panic:"+op.name, "panic: "+pn)
					}
					st := c14State(A, B, optsA, optsB)
					states[st] = struct{}{}
					if st != init {
						what := "snapshot"
						switch {
						case canonSnapshot(A) != strings.SplitN(init, "\n--\n", 2)[0]:
							what = "snapshot A"
						case !strings.Contains(init, canonSnapshot(B)):
							what = "snapshot B"
						case !strings.Contains(init, c14Globals()):
							what = "package-level variables"
						default:
							what = "options"
						}
						v := mk("state-changed:"+what+":by:"+op.name, fmt.Sprintf("operation %d (%s) changed the %s", step, op.name, what))
						v.Expected, v.Observed = trunc(init), trunc(st)
						return v
					}
					if got != fr[o%len(ops)] {
						v := mk("result-differs-from-fresh:"+op.name, fmt.Sprintf("result of %s differs from its result on a freshly parsed snapshot", op.name))
						v.Expected, v.Observed = trunc(fr[o%len(ops)]), trunc(got)
						return v
					}
				}
				return nil
			})
			out := "ok"
			if v != nil {
				out = v.Fingerprint
			}
			r.Record(key, len(hist) > 1, out)
			r.Add("traces_validated_against_impl", 1)
			if seq%3001 == 0 {
				var names []string
				for _, o := range hist {
					w := "A"
					if o >= len(ops) {
						w = "B"
					}
					names = append(names, ops[o%len(ops)].name+" on "+w)
				}
				r.Sample(map[string]any{"pair": []string{inputs[ia].name, inputs[ib].name}, "history": names})
			}
		}
		rec = func(hist []int) {
			if len(hist) > 0 {
				run(hist)
			}
			if len(hist) == depth {
				return
			}
			for o := 0; o < nOps; o++ {
				rec(append(append([]int{}, hist...), o))
			}
		}
		rec(nil)
	}
	// merge shapes: every way in which 3 (4) goroutines of one bucket can differ per
	// frame, so that every order of "first merge here, later merge there" occurs
	shapes := c14MergeShapes(r.Thorough())
	shapes = append(shapes, c14LargeSnapshots()...)
	r.Set("merge_shape_snapshots", len(shapes))
	nAgg := 6 // Aggregate x4, Aggregated.ToHTML, Snapshot.ToHTML
	for si := range shapes {
		in := &shapes[si]
		var freshRes []string
		for o := 0; o < nAgg; o++ {
			freshRes = append(freshRes, ops[o].run(scanOnce(bytes.NewReader(in.text), in.opts()).snap, in, in.opts()))
		}
		for o1 := 0; o1 < nAgg; o1++ {
			for o2 := -1; o2 < nAgg; o2++ {
				seq++
				if !r.MineIdx(seq) || r.Expired() {
					continue
				}
				hist := []int{o1}
				if o2 >= 0 {
					hist = append(hist, o2)
				}
				key := fmt.Sprintf("shape(%s) ops%v", in.name, hist)
				v := r.Check(func() *h.Viol {
					opts := in.opts()
					A := scanOnce(bytes.NewReader(in.text), opts).snap
					if A == nil {
						return &h.Viol{Fingerprint: "C14/shape-not-parsed", Summary: in.name + " does not parse", Key: key}
					}
					init := canonSnapshot(A)
					var names []string
					for _, o := range hist {
						names = append(names, ops[o].name)
						var got, pn string
						func() {
							defer func() {
								if e := recover(); e != nil {
									pn = fmt.Sprint(e)
								}
							}()
							got = ops[o].run(A, in, opts)
						}()
						r.Add("transitions", 1)
						mk := func(fp, msg string) *h.Viol {
							v := &h.Viol{Fingerprint: "C14/" + fp, Summary: fmt.Sprintf("merge shape %s, after %s: %s", in.name, strings.Join(names, " ; "), msg), Key: key, Kind: "history", InputText: string(in.text)}
							return v
						}
						if pn != "" {
							return mk("panic:"+ops[o].name, "panic: "+pn)
						}
						if st := canonSnapshot(A); st != init {
							v := mk("state-changed:snapshot A:by:"+ops[o].name, ops[o].name+" changed the snapshot")
							v.Expected, v.Observed = trunc(init), trunc(st)
							return v
						}
						if got != freshRes[o] {
							v := mk("result-differs-from-fresh:"+ops[o].name, "result of "+ops[o].name+" differs from its result on a freshly parsed snapshot")
							v.Expected, v.Observed = trunc(freshRes[o]), trunc(got)
							return v
						}
					}
					return nil
				})
				out := "ok"
				if v != nil {
					out = v.Fingerprint
				}
				r.Record(key, true, out)
			}
		}
	}
	if r.Shard == 0 {
		r.Add("states", len(states))
	}
	r.Set("states_per_pair_expected", 1)
}

// c14MergeShapes: n goroutines in the same state with the same two frames; the
// argument of each frame of each goroutine (but the first) is one of two values, in
// three flavours (pointers, plain values, a pointer inside an aggregate).
func c14MergeShapes(thorough bool) []c14Input {
	var out []c14Input
	flavours := [][2][2]string{
		{{"0xc000020000", "0xc000020010"}, {"0xc000010000", "0xc000010030"}},
		{{"0x1", "0x2"}, {"0x3", "0x4"}},
		{{"{0x1, 0xc000020000}", "{0x1, 0xc000020010}"}, {"0x7, {0xc000010000, 0x2}", "0x7, {0xc000010030, 0x2}"}},
	}
	sizes := []int{3}
	if thorough {
		sizes = []int{3, 4}
	}
	for fi, fl := range flavours {
		for _, n := range sizes {
			bits := 2 * (n - 1)
			for m := 0; m < 1<<bits; m++ {
				var b strings.Builder
				for g := 0; g < n; g++ {
					a0, a1 := 0, 0
					if g > 0 {
						a0 = m >> (2 * (g - 1)) & 1
						a1 = m >> (2*(g-1) + 1) & 1
					}
					fmt.Fprintf(&b, "goroutine %d [chan receive]:\nmain.g(%s)\n\t/gp/src/foo/main.go:20 +0x1\nmain.f(%s)\n\t/gp/src/foo/main.go:10 +0x1\n\n", g+1, fl[0][a0], fl[1][a1])
				}
				out = append(out, c14Input{name: fmt.Sprintf("shape-f%d-n%d-m%d", fi, n, m), text: []byte(b.String())})
			}
		}
	}
	return out
}

// c14RacePass: free-running goroutines under -race.
func c14RacePass(t *testing.T, r *h.Run, inputs []c14Input, ops []c14Op) {
	r.Set("rule_race", "free-running -race pass: for each snapshot, every ordered pair and every ordered triple of operations run on 2-3 goroutines released together from a barrier on the same *Snapshot and the same *Opts; race reports are collected by the driver from the detector's log")
	seq := 0
	// Lazily initialised shared state is only racy on first use: before anything has
	// run sequentially in this process, every operation is first run concurrently
	// with itself (the very first scans included).
	first := true
	for ii := range inputs {
		in := &inputs[ii]
		opts := in.opts()
		var base *Snapshot
		if first {
			var wg sync.WaitGroup
			start := make(chan struct{})
			snaps := make([]*Snapshot, 2)
			for k := 0; k < 2; k++ {
				wg.Add(1)
				go func(k int) {
					defer wg.Done()
					<-start
					snaps[k] = scanOnce(bytes.NewReader(in.text), opts).snap
				}(k)
			}
			close(start)
			wg.Wait()
			base = snaps[0]
		} else {
			base = scanOnce(bytes.NewReader(in.text), opts).snap
		}
		if base == nil {
			continue
		}
		force := false
		runSet := func(set []int) {
			seq++
			if !force && !r.MineIdx(seq) {
				return
			}
			var wg sync.WaitGroup
			start := make(chan struct{})
			results := make([]string, len(set))
			for k, o := range set {
				wg.Add(1)
				go func(k, o int) {
					defer wg.Done()
					defer func() { _ = recover() }()
					<-start
					results[k] = ops[o].run(base, in, opts)
				}(k, o)
			}
			close(start)
			wg.Wait()
			// same results as when run one after the other
			for k, o := range set {
				want := ops[o].run(base, in, opts)
				if results[k] != want {
					r.Report(&h.Viol{Fingerprint: "C14/concurrent-result-differs:" + ops[o].name, Summary: fmt.Sprintf("snapshot %s: %s run concurrently with %v gives a different result than alone", in.name, ops[o].name, set), Key: fmt.Sprintf("race %s %v", in.name, set), Reproduced: 5})
				}
			}
			r.Record(fmt.Sprintf("race %s %v", in.name, set), true, "ran")
			r.Add("concurrent_sets", 1)
		}
		n := len(ops)
		if first {
			force = true
			for a := 0; a < n; a++ {
				// six at once: library code under the operations (reflection, fmt) synchronises
				// incidentally, which can order two goroutines' first uses; more goroutines
				// leave fewer such accidents
				runSet([]int{a, a, a, a, a, a})
			}
			force = false
			// first stays true: state that is initialised lazily per input (a cache keyed by
			// what the input contains) is only racy on the first use for that input, so
			// every input starts with concurrent scans and each operation against itself,
			// in every shard
		}
		for a := 0; a < n; a++ {
			for b := 0; b < n; b++ {
				runSet([]int{a, b})
				if r.Thorough() || (a+b)%3 == 0 {
					for c := 0; c < n; c++ {
						runSet([]int{a, b, c})
					}
				}
			}
		}
	}
	r.Sample(map[string]any{"part": "race", "operations": len(ops), "snapshots": len(inputs)})
}

// c14LargeSnapshots: dumps of 130 and 260 goroutines printed in an order that is
// sorted by nothing (states, depths, ids and arguments rotate with different periods):
// paths that only exist for large snapshots must leave the snapshot alone too.
func c14LargeSnapshots() []c14Input {
	var out []c14Input
	states := []string{"chan receive", "select", "IO wait", "semacquire, 3 minutes", "sleep", "chan send, locked to thread", "syscall"}
	for _, n := range []int{130, 260} {
		var b strings.Builder
		b.WriteString("panic: boom\n\ngoroutine 900 [running]:\nmain.main()\n\t/gp/src/foo/main.go:5 +0x1\n\n")
		for i := 0; i < n; i++ {
			id := 1 + (i*37)%n
			fmt.Fprintf(&b, "goroutine %d [%s]:\n", id, states[(i*3)%len(states)])
			depth := 1 + (i*5)%4
			for d := 0; d < depth; d++ {
				fmt.Fprintf(&b, "main.f%d(0x%x, 0x%x)\n\t/gp/src/foo/w%d.go:%d +0x1\n", (i+d)%3, 0xc000010000+uint64(i%7)*0x10, i%5, d%2, 10+d)
			}
			if i%4 == 0 {
				fmt.Fprintf(&b, "created by main.start in goroutine 900\n\t/gp/src/foo/main.go:%d +0x1\n", 20+i%2)
			}
			b.WriteString("\n")
		}
		out = append(out, c14Input{name: fmt.Sprintf("large-%d-unsorted", n), text: []byte(b.String())})
	}
	return out
}
