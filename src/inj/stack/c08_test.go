//go:build verif

package stack

// C08: race report parse fidelity: the full product of report shapes of the tsan
// printer model (gen.GenRace) x 6 surroundings against ground truth.

import (
	"bytes"
	"fmt"
	"io"
	"strings"
	"testing"

	"github.com/maruel/panicparse/v2/internal/verifx/gen"
	"github.com/maruel/panicparse/v2/internal/verifx/h"
)

var raceSurrounds = [][2]string{{"", ""}, {"some output\n", ""}, {"", "exit status 66\n"}, {"Found 1 data race(s)\n\n", "FAIL\nmore\n"},
	{"==================\n", "==================\n"}, {"x\n==================\nWARNING: DATA RACE\n", "\n"}}

func checkRaceParse(rc *gen.Race, foreignAt int, before, after, key string) *h.Viol {
	if v := checkRaceParseOpts(rc, foreignAt, before, after, key, plainOpts(), ""); v != nil {
		return v
	}
	// the same report with every later stage on, as the command runs it
	return checkRaceParseOpts(rc, foreignAt, before, after, key, DefaultOpts(), ":all-stages-on")
}

func checkRaceParseOpts(rc *gen.Race, foreignAt int, before, after, key string, opts *Opts, tag string) *h.Viol {
	body := rc.Bytes()
	if rc.CRLF {
		before = strings.ReplaceAll(before, "\n", "\r\n")
		after = strings.ReplaceAll(after, "\n", "\r\n")
	}
	in := append(append([]byte(before), body...), after...)
	res := scanOnce(bytes.NewReader(in), opts)
	mk := func(cat, msg string) *h.Viol {
		v := &h.Viol{Fingerprint: "C08/" + cat + tag, Summary: msg, Key: key, Kind: "race"}
		v.SetInput(in)
		return v
	}
	if res.panicked != "" {
		return mk("panic", "ScanSnapshot panicked: "+firstLine(res.panicked))
	}
	s := res.snap
	if s == nil {
		return mk("no-snapshot", "no snapshot for a race report")
	}
	rc0 := rc
	_ = rc0
	if len(s.Goroutines) != len(rc.Ops) {
		return mk("goroutine-count", fmt.Sprintf("%d goroutines for %d operations", len(s.Goroutines), len(rc.Ops)))
	}
	if !s.IsRace() {
		return mk("not-a-race", "IsRace() is false")
	}
	parsedSections := rc.Sections
	if foreignAt >= 0 {
		parsedSections = rc.Sections[:foreignAt]
	}
	secByID := map[int]*gen.RaceSection{}
	for i := range parsedSections {
		secByID[parsedSections[i].ID] = &parsedSections[i]
	}
	for i, g := range s.Goroutines {
		op := &rc.Ops[i]
		if g.ID != op.ID {
			return mk("op.id", fmt.Sprintf("goroutine[%d].ID=%d want %d", i, g.ID, op.ID))
		}
		if g.First != (i == 0) {
			return mk("first", fmt.Sprintf("goroutine[%d].First=%v", i, g.First))
		}
		if g.RaceAddr != op.Addr {
			return mk("op.addr", fmt.Sprintf("goroutine[%d].RaceAddr=%#x want %#x", i, g.RaceAddr, op.Addr))
		}
		if g.RaceWrite != op.Write {
			return mk("op.write", fmt.Sprintf("goroutine[%d].RaceWrite=%v want %v (operation %d)", i, g.RaceWrite, op.Write, i))
		}
		if len(g.Stack.Calls) != len(op.Calls) {
			return mk("op.stack", fmt.Sprintf("goroutine[%d] has %d frames want %d", i, len(g.Stack.Calls), len(op.Calls)))
		}
		for k := range op.Calls {
			if cat, msg := cmpCall(&g.Stack.Calls[k], &op.Calls[k], false, 0); cat != "" {
				return mk("op.stack."+cat, fmt.Sprintf("goroutine[%d] frame %d: %s", i, k, msg))
			}
		}
		sec := secByID[g.ID]
		if sec == nil {
			if g.State != "" || len(g.CreatedBy.Calls) != 0 {
				return mk("section-misattributed", fmt.Sprintf("goroutine[%d] (id %d) has no creation section of its own but State=%q and %d creation frames", i, g.ID, g.State, len(g.CreatedBy.Calls)))
			}
			continue
		}
		want := "finished"
		if sec.Running {
			want = "running"
		}
		if g.State != want {
			return mk("section.state", fmt.Sprintf("goroutine[%d] (id %d) State=%q want %q", i, g.ID, g.State, want))
		}
		if len(g.CreatedBy.Calls) != len(sec.Calls) {
			return mk("section.stack", fmt.Sprintf("goroutine[%d] (id %d) has %d creation frames want %d", i, g.ID, len(g.CreatedBy.Calls), len(sec.Calls)))
		}
		for k := range sec.Calls {
			if cat, msg := cmpCall(&g.CreatedBy.Calls[k], &sec.Calls[k], false, 0); cat != "" {
				return mk("section.stack."+cat, fmt.Sprintf("goroutine[%d] creation frame %d: %s", i, k, msg))
			}
		}
		if g.SleepMin != 0 || g.SleepMax != 0 || g.Locked {
			return mk("race-extra-fields", "sleep/locked set on a race goroutine")
		}
	}
	if !bytes.Equal(res.prefix, []byte(before)) {
		return mk("prefix", fmt.Sprintf("forwarded %q want %q", trunc(string(res.prefix)), before))
	}
	if foreignAt < 0 && len(rc.Sections) == 0 {
		// A report in which no goroutine has a creation section is outside the
		// format the statement describes (the closing separator then follows an
		// operation stack); only the goroutines are checked.
	} else if foreignAt < 0 {
		if res.err != nil && !(res.err == io.EOF && after == "") {
			return mk("error-on-valid-report", fmt.Sprintf("err=%v on a well formed report", res.err))
		}
		if string(res.suffix) != after {
			return mk("suffix", fmt.Sprintf("remainder %q want %q: the closing separator ends the report and what follows is returned", trunc(string(res.suffix)), after))
		}
	} else {
		if res.err == nil || res.err == io.EOF {
			return mk("foreign-section-no-error", fmt.Sprintf("a creation section for goroutine 99, which took part in no operation, is not an error (err=%v)", res.err))
		}
		if !bytes.HasPrefix(res.suffix, []byte("Goroutine 99 (running) created at:")) {
			return mk("foreign-section-consumed", fmt.Sprintf("remainder %q does not start at the foreign section", trunc(string(res.suffix))))
		}
	}
	return nil
}

func raceScenario(c *h.Ctx) (*gen.Race, int, [2]string) {
	rc, foreignAt := gen.GenRace(c)
	sur := raceSurrounds[c.Choose(len(raceSurrounds), "surround")]
	return rc, foreignAt, sur
}

func TestVerifC08(t *testing.T) {
	r := h.Start("C08")
	defer r.Finish(func(s string) { t.Error(s) })
	r.Set("rule", "full product of the tsan report printer model: 2..3 operations (read/write each), operation stacks of 1..2 frames with/without arguments, every subset of goroutines having a creation section x every order of the sections x running/finished x creation stacks of 1..2 frames, a foreign section (goroutine 99) at every position or absent, LF/CRLF, 6 surroundings (incl. a lone separator line, and a separator+warning pair, directly before the report); ground-truth comparison of id, address, kind, stacks, state and creation stack per goroutine; non-trivial = sections are not in operation order, or a subset, or a foreign section is present; distinct = choice vector")
	r.Set("assumptions", []string{"the report printer model (verifx/gen/race.go) is faithful to tsan's Go report format", "the race rows of the line grammar are additionally covered by the C07 product search"})
	if rv := r.ReplayFile(); rv != nil {
		in := rv.Input()
		res := scanOnce(bytes.NewReader(in), plainOpts())
		t.Logf("replay %s: %s\ninput:\n%s", rv.Fingerprint, rv.Summary, string(in))
		t.Logf("now: err=%v prefix=%q suffix=%q panic=%q", res.err, res.prefix, res.suffix, firstLine(res.panicked))
		if res.snap != nil {
			for i, g := range res.snap.Goroutines {
				t.Logf("goroutine[%d]: id=%d first=%v state=%q write=%v addr=%#x stack=%s created=%s", i, g.ID, g.First, g.State, g.RaceWrite, g.RaceAddr, renderStack(&g.Stack), renderStack(&g.CreatedBy))
			}
		}
		if strings.HasPrefix(rv.Key, "s") {
			return // structural-product case: the input bytes above are the replay
		}
		c := h.RunVector(h.ParseKey(rv.Key), func(c *h.Ctx) {
			rc, fa, sur := raceScenario(c)
			if v := checkRaceParse(rc, fa, sur[0], sur[1], rv.Key); v != nil {
				t.Errorf("VIOLATION reproduced: %s: %s", v.Fingerprint, v.Summary)
			} else {
				t.Logf("no violation on this tree")
			}
		})
		t.Logf("choices: %s", c.Labels())
		return
	}
	structural := func(l string) bool {
		return l == "ops" || strings.HasPrefix(l, "section-for-op") || strings.HasPrefix(l, "section-order-") || l == "foreign-section" || strings.HasSuffix(l, ".finished") || l == "surround"
	}
	run := func(c *h.Ctx, rc *gen.Race, foreignAt int, sur [2]string, key string) {
		if !r.Mine(key) {
			return
		}
		v := r.Check(func() *h.Viol { return checkRaceParse(rc, foreignAt, sur[0], sur[1], key) })
		out := "ok"
		if v != nil {
			out = v.Fingerprint
		}
		nontrivial := foreignAt >= 0 || len(rc.Sections) != len(rc.Ops)
		for i := range rc.Sections {
			if i < len(rc.Ops) && rc.Sections[i].ID != rc.Ops[i].ID {
				nontrivial = true
			}
		}
		r.Record(key, nontrivial, fmt.Sprintf("%s ops=%d secs=%d foreign=%d", out, len(rc.Ops), len(rc.Sections), foreignAt))
		if c.Deviations() == 3 {
			r.Sample(map[string]any{"choices": c.Labels(), "text": string(rc.Bytes())})
		}
	}
	total := 0
	if !r.Thorough() {
		// full product of the structural dimensions x 8 fixed content assignments
		for ci, content := range raceContents {
			n, complete := h.Explore(-1, r.Expired, func(c *h.Ctx) {
				lc := layered{c, structural, content}
				rc, foreignAt := gen.GenRace(lc)
				sur := raceSurrounds[lc.Choose(len(raceSurrounds), "surround")]
				run(c, rc, foreignAt, sur, fmt.Sprintf("s%d:%s", ci, c.Key()))
			})
			total += n
			if !complete {
				r.Set("exhaustive_within_bound", false)
			}
		}
	} else {
		// every choice vector with <= 10 deviations (structure and content alike) ...
		n, complete := h.Explore(10, r.Expired, func(c *h.Ctx) {
			rc, foreignAt, sur := raceScenario(c)
			run(c, rc, foreignAt, sur, c.Key())
		})
		total += n
		// ... plus the structural full product with the fixed contents
		for ci, content := range raceContents {
			n, c2 := h.Explore(-1, r.Expired, func(c *h.Ctx) {
				lc := layered{c, structural, content}
				rc, foreignAt := gen.GenRace(lc)
				sur := raceSurrounds[lc.Choose(len(raceSurrounds), "surround")]
				run(c, rc, foreignAt, sur, fmt.Sprintf("s%d:%s", ci, c.Key()))
			})
			total += n
			complete = complete && c2
		}
		if !complete {
			r.Set("exhaustive_within_bound", false)
		}
	}
	if r.Shard == 0 {
		r.Add("explored_vectors", total)
	}
}

var raceContents = []fixedChooser{
	{},
	{"op0.write": 1, "op1.write": 1, "op2.write": 1},
	{"op0.write": 1, "op2.write": 1, "crlf": 1},
	{"op0.frames": 1, "op1.frames": 1, "op2.frames": 1, "op0.args": 1, "op1.args": 1, "op2.args": 1},
	{"sec0.frames": 1, "sec1.frames": 1, "sec2.frames": 1, "sec0.args": 1, "sec1.args": 1, "sec2.args": 1, "op1.write": 1},
	{"op0.frames": 1, "op1.args": 1, "sec0.frames": 1, "sec1.args": 1, "crlf": 1, "op1.write": 1},
	{"op1.frames": 1, "sec1.frames": 1, "sec2.args": 1, "op2.frames": 1},
	{"op0.args": 1, "op2.args": 1, "sec0.args": 1, "sec2.frames": 1, "op0.write": 1},
}
