//go:build verif

package stack

func init() {
	sigLess = func(a, b *Signature) bool { return a.less(b) }
}
