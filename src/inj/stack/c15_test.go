//go:build verif

package stack

// C15: pointer pseudo-names: all assignments of 8 boundary values to 6 (quick) / 7
// (thorough) argument slots laid out over 3 goroutines, 2 frames, top-level and
// nested aggregate positions; relational oracle (R-names).

import (
	"bytes"
	"fmt"
	"io"
	"os"
	"path/filepath"
	"regexp"
	"sort"
	"strings"
	"testing"

	"github.com/maruel/panicparse/v2/internal/verifx/h"
)

var c15Values = []uint64{5, 512 * 1024, 512*1024 + 1, 0xc000012340, 0xc000045678, 0xc0000789a0, 1<<63 - 2, 1<<63 - 1}

func c15Text(vals []uint64, race bool) []byte {
	v := func(i int) string {
		if i >= len(vals) {
			return "0x0"
		}
		return fmt.Sprintf("0x%x", vals[i])
	}
	var b strings.Builder
	if !race {
		fmt.Fprintf(&b, "goroutine 1 [running]:\nmain.f0(%s, {%s})\n\t/a/b.go:1 +0x1\nmain.f1(%s)\n\t/a/b.go:2 +0x1\n\n", v(0), v(1), v(2))
		fmt.Fprintf(&b, "goroutine 2 [select]:\nmain.g0(%s, {{{{{%s}}}}}, {0x1})\n\t/a/b.go:3 +0x1\n", v(3), v(4))
		if len(vals) > 6 {
			fmt.Fprintf(&b, "main.g1({0x2, %s})\n\t/a/b.go:4 +0x1\n", v(6))
		}
		fmt.Fprintf(&b, "\ngoroutine 3 [chan send]:\nmain.h0(%s)\n\t/a/b.go:5 +0x1\n", v(5))
		return []byte(b.String())
	}
	fmt.Fprintf(&b, "==================\nWARNING: DATA RACE\nRead at 0x00c000014100 by goroutine 7:\n  main.f0(%s, {%s})\n      /a/b.go:1 +0x1\n  main.f1(%s)\n      /a/b.go:2 +0x1\n\n", v(0), v(1), v(2))
	fmt.Fprintf(&b, "Previous write at 0x00c000014100 by goroutine 8:\n  main.g0(%s, {{%s}, 0x1})\n      /a/b.go:3 +0x1\n\n", v(3), v(4))
	// creation stacks carry arguments in race reports: the second goroutine's repeats two
	// values of its own operation stack
	fmt.Fprintf(&b, "Goroutine 7 (running) created at:\n  main.m(%s)\n      /a/b.go:9 +0x1\n\nGoroutine 8 (finished) created at:\n  main.n(%s, {%s})\n      /a/b.go:11 +0x1\n  main.o(%s)\n      /a/b.go:12 +0x1\n==================\n", v(5), v(3), v(4), v(3))
	return []byte(b.String())
}

type occ struct {
	val     uint64
	name    string
	isPtr   bool
	primary bool
}

func collectOcc(s *Snapshot) []occ {
	var out []occ
	for gi, g := range s.Goroutines {
		for ci := range g.Stack.Calls {
			walkArgs(&g.Stack.Calls[ci].Args, func(a *Arg) {
				out = append(out, occ{a.Value, a.Name, a.IsPtr, gi == 0})
			})
		}
	}
	return out
}

var reHashName = regexp.MustCompile(`^#(\d+)$`)

// checkNames verifies the labelling laws on a snapshot parsed with naming on.
func checkNames(s *Snapshot) (string, string) {
	occs := collectOcc(s)
	nameOf := map[uint64]string{}
	count := map[uint64]int{}
	inPrimary := map[uint64]bool{}
	valOf := map[string]uint64{}
	for _, o := range occs {
		wantPtr := o.val > 512*1024 && o.val < 1<<63-1
		if o.isPtr != wantPtr {
			return "classification", fmt.Sprintf("value %#x IsPtr=%v", o.val, o.isPtr)
		}
		if !wantPtr {
			if o.name != "" {
				return "non-pointer-named", fmt.Sprintf("value %#x is not pointer-classified but is named %q", o.val, o.name)
			}
			continue
		}
		if prev, ok := nameOf[o.val]; ok && prev != o.name {
			return "same-value-different-names", fmt.Sprintf("value %#x carries names %q and %q", o.val, prev, o.name)
		}
		nameOf[o.val] = o.name
		count[o.val]++
		if o.primary {
			inPrimary[o.val] = true
		}
		if o.name != "" {
			if pv, ok := valOf[o.name]; ok && pv != o.val {
				return "name-shared", fmt.Sprintf("name %q is used for %#x and %#x", o.name, pv, o.val)
			}
			valOf[o.name] = o.val
		}
	}
	// every pointer value occurring more than once is named
	for v, n := range count {
		if n >= 2 && nameOf[v] == "" {
			return "recurring-pointer-unnamed", fmt.Sprintf("pointer %#x occurs %d times and is not named", v, n)
		}
	}
	// names are exactly #1..#k
	var nums []int
	numOf := map[uint64]int{}
	for name, v := range valOf {
		m := reHashName.FindStringSubmatch(name)
		if m == nil {
			return "name-format", fmt.Sprintf("name %q", name)
		}
		var n int
		fmt.Sscan(m[1], &n)
		nums = append(nums, n)
		numOf[v] = n
	}
	sort.Ints(nums)
	for i, n := range nums {
		if n != i+1 {
			return "names-not-dense", fmt.Sprintf("names in use are %v, want #1..#%d", nums, len(nums))
		}
	}
	// order: named values occurring in the first goroutine before the others; ascending inside each group
	var a, b []uint64
	for v := range numOf {
		if inPrimary[v] {
			a = append(a, v)
		} else {
			b = append(b, v)
		}
	}
	sort.Slice(a, func(i, j int) bool { return a[i] < a[j] })
	sort.Slice(b, func(i, j int) bool { return b[i] < b[j] })
	for i := 1; i < len(a); i++ {
		if numOf[a[i-1]] > numOf[a[i]] {
			return "order-within-first-group", fmt.Sprintf("%#x is #%d but the larger %#x is #%d", a[i-1], numOf[a[i-1]], a[i], numOf[a[i]])
		}
	}
	for i := 1; i < len(b); i++ {
		if numOf[b[i-1]] > numOf[b[i]] {
			return "order-within-second-group", fmt.Sprintf("%#x is #%d but the larger %#x is #%d", b[i-1], numOf[b[i-1]], b[i], numOf[b[i]])
		}
	}
	for _, x := range a {
		for _, y := range b {
			if numOf[x] > numOf[y] {
				return "first-goroutine-pointers-not-first", fmt.Sprintf("%#x occurs in the first goroutine and is #%d, %#x does not and is #%d", x, numOf[x], y, numOf[y])
			}
		}
	}
	return "", ""
}

func c15Check(vals []uint64, race bool, faulty bool, key string) *h.Viol {
	in := c15Text(vals, race)
	mk := func(cat, msg string) *h.Viol {
		v := &h.Viol{Fingerprint: "C15/" + cat, Summary: msg, Key: key, Kind: "names"}
		v.SetInput(in)
		return v
	}
	on := scanOnce(bytes.NewReader(in), &Opts{NameArguments: true})
	off := scanOnce(bytes.NewReader(in), &Opts{NameArguments: false})
	if on.panicked != "" || off.panicked != "" {
		return mk("panic", "panic: "+firstLine(on.panicked+off.panicked))
	}
	if on.snap == nil || off.snap == nil {
		return mk("no-snapshot", "no snapshot")
	}
	for _, o := range collectOcc(off.snap) {
		if o.name != "" {
			return mk("named-with-naming-off", fmt.Sprintf("naming off but value %#x carries name %q", o.val, o.name))
		}
	}
	if canonNoNamesSnap(on.snap) != canonNoNamesSnap(off.snap) {
		return mk("naming-changes-other-fields", "the snapshots with naming on and off differ in more than names")
	}
	if cat, msg := checkNames(on.snap); cat != "" {
		return mk(cat, msg)
	}
	// The same laws hold for a snapshot that is returned together with an error:
	// a malformed goroutine after the dump, and a reader that fails after the data.
	if !race && faulty {
		bad := append(append([]byte{}, in...), "\ngoroutine 99 [running]:\nmain.bad(zz)\n"...)
		for fi, rd := range []io.Reader{bytes.NewReader(bad), &scriptReader{data: in, failErr: errSentinel}, &scriptReader{data: in, failErr: errSentinel, eofWithData: true}} {
			res := scanOnce(rd, &Opts{NameArguments: true})
			if res.panicked != "" {
				return mk("panic", "panic: "+firstLine(res.panicked))
			}
			if res.snap == nil || res.err == nil || res.err == io.EOF {
				continue
			}
			if cat, msg := checkNames(res.snap); cat != "" {
				return mk(cat+":snapshot-returned-with-error", fmt.Sprintf("fault variant %d (err=%v): %s", fi, res.err, msg))
			}
		}
	}
	// creation stacks of race reports: not walked today; names must at least be consistent there
	return nil
}

func canonNoNamesSnap(s *Snapshot) string {
	var b strings.Builder
	for _, g := range s.Goroutines {
		b.WriteString(canonNoNames(g))
		b.WriteString("\n")
	}
	return b.String()
}

func TestVerifC15(t *testing.T) {
	r := h.Start("C15")
	defer r.Finish(func(s string) { t.Error(s) })
	slots := r.Pick(6, 7)
	r.Set("rule", fmt.Sprintf("all assignments of a value from {5, 512KiB, 512KiB+1, P1, P2, P3, 2^63-2, 2^63-1} to %d argument slots laid out over 3 goroutines x <=2 frames x top-level / aggregate / nested-aggregate positions (8^%d dumps) plus the same over a race report's operation stacks, the second goroutine's creation stack repeating two of its values (8^5); plus 5^6 (thorough 8^6) assignments over frames whose sources exist, scanned with path guessing and source analysis on (classification, names and laws as with naming alone); parsed with naming on and off; every 8th assignment also with a malformed trailing goroutine and with a reader failing after/with the data (snapshot returned together with an error); relational labelling laws (same value same name, injective, recurring pointers named, names exactly #1..#k, non-pointers unnamed, first-goroutine pointers numbered first, ascending inside each group; off: no names and otherwise equal). non-trivial = at least two slots hold the same pointer-classified value; distinct = the assignment", slots, slots))
	r.Set("assumptions", []string{"whether a pointer seen once is named is left open, as in the statement"})
	if rv := r.ReplayFile(); rv != nil {
		in := rv.Input()
		on := scanOnce(bytes.NewReader(in), &Opts{NameArguments: true})
		t.Logf("replay %s: %s\ninput:\n%s", rv.Key, rv.Summary, in)
		if on.snap != nil {
			for _, g := range on.snap.Goroutines {
				t.Logf("goroutine %d: %s", g.ID, renderStack(&g.Stack))
			}
			if cat, msg := checkNames(on.snap); cat != "" {
				t.Errorf("VIOLATION reproduced: %s: %s", cat, msg)
			} else {
				t.Logf("no violation on this tree")
			}
		}
		return
	}
	nv := len(c15Values)
	total := 1
	for i := 0; i < slots; i++ {
		total *= nv
	}
	run := func(n int, vals []uint64, race bool) {
		key := fmt.Sprintf("race=%v %x", race, vals)
		v := r.Check(func() *h.Viol { return c15Check(vals, race, n%8 == 3, key) })
		out := "ok"
		if v != nil {
			out = v.Fingerprint
		}
		seen := map[uint64]int{}
		nt := false
		names := 0
		for _, x := range vals {
			seen[x]++
			if seen[x] == 2 && x > 512*1024 && x < 1<<63-1 {
				nt = true
				names++
			}
		}
		r.Record(key, nt, fmt.Sprintf("%s %d", out, names))
		if n%50021 == 7 {
			r.Sample(map[string]any{"values": fmt.Sprintf("%x", vals), "race": race, "text": string(c15Text(vals, race))})
		}
	}
	for n := 0; n < total; n++ {
		if !r.MineIdx(n) {
			continue
		}
		if r.Expired() {
			r.Set("exhaustive_within_bound", false)
			break
		}
		vals := make([]uint64, slots)
		x := n
		for i := range vals {
			vals[i] = c15Values[x%nv]
			x /= nv
		}
		run(n, vals, false)
	}
	raceTotal := nv * nv * nv * nv * nv
	for n := 0; n < raceTotal; n++ {
		if !r.MineIdx(n) {
			continue
		}
		vals := make([]uint64, 6)
		x := n
		for i := 0; i < 5; i++ {
			vals[i] = c15Values[x%nv]
			x /= nv
		}
		vals[5] = vals[0]
		run(n, vals, true)
	}
	// with path guessing and source analysis on, over frames whose sources exist: the
	// analysis stage runs after the naming and must leave classification and names alone
	root, err := os.MkdirTemp(os.Getenv("VERIF_SCRATCH"), "c15src")
	if err != nil {
		r.Note("no scratch directory: the analysed part is skipped")
		return
	}
	defer os.RemoveAll(root)
	if rp, err := filepath.EvalSymlinks(root); err == nil {
		root = rp
	}
	_, full := c03SourceSeeds(root)
	avals := []uint64{5, 512*1024 + 1, 0xc000012340, 0xc000045678, 1<<63 - 2}
	if r.Thorough() {
		avals = c15Values
	}
	na := len(avals)
	atotal := na * na * na * na * na * na
	for n := 0; n < atotal; n++ {
		if !r.MineIdx(n) || r.Expired() {
			continue
		}
		vs := make([]uint64, 6)
		x := n
		for i := range vs {
			vs[i] = avals[x%na]
			x /= na
		}
		in := []byte(fmt.Sprintf("goroutine 1 [running]:\nexample.com/p.Work(0x%x, {0x%x, 0x%x}, 0x%x)\n\t%s/gp/src/example.com/p/p.go:4 +0x1\nexample.com/m.(*T).Run(0x%x, 0x2, {0x%x, 0x%x, 0x%x})\n\t%s/mod/m.go:6 +0x2\n\ngoroutine 7 [select]:\nexample.com/p.Work(0x%x, {0x%x, 0x%x}, 0x5)\n\t%s/gp/src/example.com/p/p.go:4 +0x1\n",
			vs[0], vs[1], vs[2], vs[3], root, vs[4], vs[5], vs[1], vs[2], root, vs[2], vs[0], vs[5], root))
		key := fmt.Sprintf("analysed %x", vs)
		v := r.Check(func() *h.Viol {
			mk := func(cat, msg string) *h.Viol {
				v := &h.Viol{Fingerprint: "C15/analysed/" + cat, Summary: msg, Key: key, Kind: "names"}
				v.SetInput(in)
				return v
			}
			on := scanOnce(bytes.NewReader(in), full())
			plain := scanOnce(bytes.NewReader(in), &Opts{NameArguments: true})
			if on.panicked != "" {
				return mk("panic", "panic: "+firstLine(on.panicked))
			}
			if on.snap == nil || plain.snap == nil {
				return mk("no-snapshot", "no snapshot")
			}
			if cat, msg := checkNames(on.snap); cat != "" {
				return mk(cat, "with path guessing and source analysis on: "+msg)
			}
			a, b := collectOcc(on.snap), collectOcc(plain.snap)
			if len(a) != len(b) {
				return mk("occurrences", "source analysis changes the number of arguments")
			}
			for i := range a {
				if a[i] != b[i] {
					return mk("analysis-changes-names", fmt.Sprintf("argument %d is %+v with source analysis on and %+v with naming alone", i, a[i], b[i]))
				}
			}
			return nil
		})
		out := "ok"
		if v != nil {
			out = v.Fingerprint
		}
		r.Record(key, true, out)
	}
}
