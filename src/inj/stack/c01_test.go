//go:build verif

package stack

// C01: goroutine dump parse fidelity. All outputs of the traceback-printer model
// (gen.GenDump) within a deviation bound, the full product of the format
// dimensions, and the full symbol x file product, compared field by field with
// the ground truth the text was printed from.

import (
	"bytes"
	"fmt"
	"io"
	"runtime"
	"strings"
	"testing"

	"github.com/maruel/panicparse/v2/internal/verifx/gen"
	"github.com/maruel/panicparse/v2/internal/verifx/h"
)

func canonGoroutine(g *Goroutine) string { return fmt.Sprintf("%+v", *g) }

// canonSnapshot is a deep, canonical serialisation of a snapshot.
func canonSnapshot(s *Snapshot) string {
	if s == nil {
		return "<nil>"
	}
	var b strings.Builder
	for _, g := range s.Goroutines {
		b.WriteString(canonGoroutine(g))
		b.WriteString("\n")
	}
	fmt.Fprintf(&b, "LG=%q LP=%q RG=%q RP=%v GM=%v", s.LocalGOROOT, s.LocalGOPATHs, s.RemoteGOROOT, s.RemoteGOPATHs, s.LocalGomods)
	return b.String()
}

func genEnv() *gen.Env {
	st, _ := gen.States(runtime.GOROOT(), "/opt/veriftools/go1.26.8", "/opt/veriftools/go1.26")
	return &gen.Env{States: st}
}

var surrounds = [][2]string{{"", ""}, {"panic: boom\n\n", "exit status 2\n"}, {"", "\nPASS\n"}, {"some log line\r\npanic: x [recovered]\n\tpanic: y\n\n", ""},
	// a dump that starts directly after a line which looks like the opening of a race report
	{"==================\n", "exit status 2\n"}, {"log\n==================\nWARNING: DATA RACE\n", ""}}

func errClass(err error) string {
	switch {
	case err == nil:
		return "nil"
	case err == io.EOF:
		return "EOF"
	default:
		return "error:" + err.Error()
	}
}

// checkDumpParse parses the rendering of d (with text around it) and compares.
func checkDumpParse(d *gen.Dump, before, after string, key string) *h.Viol {
	return checkDumpParseOpts(d, before, after, key, plainOpts(), "")
}

// checkDumpParseOpts: the same under other options (tag names them in the fingerprint):
// what the parser reads from the text does not depend on the stages that run after it.
func checkDumpParseOpts(d *gen.Dump, before, after string, key string, opts *Opts, tag string) *h.Viol {
	body := d.Bytes()
	in := append(append([]byte(before), body...), after...)
	res := scanOnce(bytes.NewReader(in), opts)
	disc := tag
	if d.F.Indent != "" {
		disc += ":indented"
	}
	mk := func(cat, msg string) *h.Viol {
		v := &h.Viol{Fingerprint: "C01/" + cat + disc, Summary: msg, Key: key, Kind: "dump"}
		v.SetInput(in)
		return v
	}
	if res.panicked != "" {
		return mk("panic", "ScanSnapshot panicked: "+firstLine(res.panicked))
	}
	if cat, msg := cmpDump(res.snap, d); cat != "" {
		// make the fingerprint specific to the symbol / file shape at fault
		if strings.Contains(cat, "func.") || strings.Contains(cat, "file") || strings.Contains(cat, "srcname") {
			disc += ":" + faultShape(res.snap, d)
		}
		return mk(cat, msg)
	}
	// the same dump through a reader that reports EOF together with its only Read,
	// and through one that delivers it in two pieces: the snapshot must be the same
	for di, sr := range []*scriptReader{{data: in, eofWithData: true}, {data: in, chunks: []int{len(in) / 2}}} {
		alt := scanOnce(sr, opts)
		if alt.panicked != "" {
			return mk("panic", "ScanSnapshot panicked: "+firstLine(alt.panicked))
		}
		if canonSnapshot(alt.snap) != canonSnapshot(res.snap) {
			return mk(fmt.Sprintf("delivery-changes-snapshot:%d", di), "the same bytes delivered "+[]string{"in one Read together with EOF", "in two pieces"}[di]+" give a different snapshot")
		}
	}
	// The statement is about the snapshot; whether the line that ends a dump also
	// raises an error is not fixed by it, so the error is only checked when the
	// dump runs to the end of the stream.
	if after == "" && res.err != nil && res.err != io.EOF {
		return mk("error-on-valid-dump", "error on a well formed dump that ends the stream: "+res.err.Error())
	}
	if !bytes.Equal(res.prefix, []byte(before)) {
		return mk("prefix", fmt.Sprintf("forwarded %q want %q", trunc(string(res.prefix)), trunc(before)))
	}
	wantSuffix := after
	// at most one blank separator line directly after the dump may be withheld
	if !bytes.Equal(res.suffix, []byte(wantSuffix)) && !(strings.HasPrefix(wantSuffix, "\n") && string(res.suffix) == wantSuffix[1:]) {
		return mk("suffix", fmt.Sprintf("remainder %q want %q", trunc(string(res.suffix)), trunc(wantSuffix)))
	}
	return nil
}

// faultShape names the symbol or file shape of the first differing frame.
func faultShape(s *Snapshot, d *gen.Dump) string {
	for i := range d.Gs {
		if s == nil || i >= len(s.Goroutines) {
			break
		}
		g, w := s.Goroutines[i], &d.Gs[i]
		for k := range w.Calls {
			if k >= len(g.Stack.Calls) {
				break
			}
			if cat, _ := cmpCall(&g.Stack.Calls[k], &w.Calls[k], false, 0); cat != "" {
				if strings.HasPrefix(cat, "func") {
					return "pkg=" + trunc40(w.Calls[k].Pkg) + ",name=" + trunc40(w.Calls[k].Name)
				}
				return "file=" + trunc40(w.Calls[k].File)
			}
		}
		if w.Created != nil && len(g.CreatedBy.Calls) == 1 {
			if cat, _ := cmpCall(&g.CreatedBy.Calls[0], w.Created, true, w.CreatedIn); cat != "" {
				if strings.HasPrefix(cat, "func") {
					return "pkg=" + trunc40(w.Created.Pkg) + ",name=" + trunc40(w.Created.Name)
				}
				return "file=" + trunc40(w.Created.File)
			}
		}
	}
	return "?"
}

func trunc40(s string) string {
	if len(s) > 40 {
		return s[:40] + "~"
	}
	return s
}

type fixedChooser map[string]int

func (f fixedChooser) Choose(n int, label string) int {
	if v, ok := f[label]; ok && v < n {
		return v
	}
	return 0
}

// layered lets the explorer own some labels while the rest come from a fixed map.
type layered struct {
	c     *h.Ctx
	owned func(label string) bool
	fixed fixedChooser
}

func (l layered) Choose(n int, label string) int {
	if l.owned(label) {
		return l.c.Choose(n, label)
	}
	return l.fixed.Choose(n, label)
}

var c01Contents = []fixedChooser{
	{},
	{"goroutines": 1, "g0.stack-shape": 1, "g0.creator": 2, "g0.f0.argshape": 7, "g1.stack-shape": 6, "g1.minutes": 2, "g1.locked": 1, "g1.f0.sym": 17},
	{"goroutines": 2, "g0.stack-shape": 4, "g1.stack-shape": 7, "g1.creator": 1, "g2.stack-shape": 2, "g2.creator": 1, "g2.state": 9, "g0.f1.sym": 18, "g0.f1.argshape": 12},
}

func TestVerifC01(t *testing.T) {
	r := h.Start("C01")
	defer r.Finish(func(s string) { t.Error(s) })
	env := genEnv()
	r.Set("rule", "choice vectors of the traceback-printer model: (a) all vectors with <= bound deviations from the plainest dump over format, goroutine count, id, every state string of the installed runtimes, tails, minutes, lock, stack shapes (1..150 frames, both elision markers, unavailable), creator forms, 40 symbol shapes, 14 file shapes, all argument trees <=4 nodes/depth<=3 + specials, leaf value rotations, surrounding text; (b) full product of the format dimensions x 3 contents, each parsed with no option and with every later stage on (naming, path guessing, source analysis); (c) full symbol x file product at stack and creator position; (d) a function line / argument list / file line of 16383..200000 bytes in the second of three goroutines, LF and CRLF; (e) two goroutines with the same frames and arguments differing in exactly one attribute of one argument or of the header, under five combinations of the later stages. non-trivial = at least one deviation from the default dump; distinct = choice vector")
	r.Set("assumptions", []string{"the printer model (verifx/gen/dump.go) is faithful to runtime/traceback.go of the installed toolchains (state strings are read from their sources at check time)", "ground truth comparison covers ID, First, State, Sleep, Locked, per frame Func.{Complete,ImportPath,Name}, RemoteSrcPath, Line, SrcName, argument trees incl. IsPtr as a function of the value, creator, Stack.Elided"})
	r.Set("states_in_alphabet", len(env.States))
	bound := r.Pick(2, 3)
	r.Set("deviation_bound", bound)
	if rv := r.ReplayFile(); rv != nil {
		replayC01(t, rv, env)
		return
	}
	// (a) deviation-bounded exploration of everything
	n, complete := h.Explore(bound, r.Expired, func(c *h.Ctx) {
		d := gen.GenDump(c, env)
		sur := surrounds[c.Choose(len(surrounds), "surround")]
		if d.F.NoFinalNL {
			sur[1] = "" // an unterminated last line is the end of the stream
		}
		key := "a:" + c.Key()
		if !r.Mine(key) {
			return
		}
		v := r.Check(func() *h.Viol { return checkDumpParse(d, sur[0], sur[1], key) })
		out := "ok"
		if v != nil {
			out = v.Fingerprint
		}
		r.Record(key, c.Deviations() > 0, fmt.Sprintf("%s g=%d f=%d %s", out, len(d.Gs), len(d.Gs[0].Calls), h.Hash(d.Gs[0].State+d.Gs[0].Calls0Sym())))
		if c.Deviations() == 2 {
			r.Sample(map[string]any{"choices": c.Labels(), "text": trunc(string(d.Bytes()))})
		}
	})
	if r.Shard == 0 {
		r.Add("explored_vectors_part_a", n)
	}
	if !complete {
		r.Set("exhaustive_within_bound", false)
	}
	// (b) full product of the format dimensions x 3 contents
	isFormat := func(l string) bool {
		switch l {
		case "indent", "indent-blank", "crlf", "no-final-newline", "header-annotation", "frame-annotation", "file-indent", "no-pc-offset":
			return true
		}
		return false
	}
	for ci, content := range c01Contents {
		nb, _ := h.Explore(-1, r.Expired, func(c *h.Ctx) {
			d := gen.GenDump(layered{c, isFormat, content}, env)
			key := fmt.Sprintf("b%d:%s", ci, c.Key())
			if !r.Mine(key) {
				return
			}
			v := r.Check(func() *h.Viol {
				if v := checkDumpParse(d, "panic: x\n\n", "", key); v != nil {
					return v
				}
				// the same dump with every later stage on, as the command runs it (argument
				// naming, path guessing against the local Go root, source analysis)
				return checkDumpParseOpts(d, "panic: x\n\n", "", key, DefaultOpts(), ":all-stages-on")
			})
			out := "ok"
			if v != nil {
				out = v.Fingerprint
			}
			r.Record(key, true, out+fmt.Sprint(len(d.Gs), d.F))
		})
		if r.Shard == 0 {
			r.Add("explored_vectors_part_b", nb)
		}
	}
	// (c) every symbol x every file shape, at stack and at creator position
	for _, pos := range []string{"g0.f0.", "g0.cr."} {
		isSymFile := func(l string) bool { return l == pos+"sym" || l == pos+"file" }
		fixed := fixedChooser{}
		if pos == "g0.cr." {
			fixed["g0.creator"] = 2
		}
		nc, _ := h.Explore(-1, r.Expired, func(c *h.Ctx) {
			d := gen.GenDump(layered{c, isSymFile, fixed}, env)
			key := "c" + pos + c.Key()
			if !r.Mine(key) {
				return
			}
			v := r.Check(func() *h.Viol { return checkDumpParse(d, "", "", key) })
			out := "ok"
			if v != nil {
				out = v.Fingerprint
			}
			r.Record(key, true, out+h.Hash(string(d.Bytes())))
		})
		if r.Shard == 0 {
			r.Add("explored_vectors_part_c", nc)
		}
	}
	// (d) very long lines inside a dump (instantiated generic names, many arguments,
	// deep paths): the second of three goroutines carries a function line / an argument
	// list / a file line of L bytes for L around the reader's buffer size and its
	// multiples; CRLF and LF
	nd := 0
	for _, L := range []int{16383, 16384, 16385, 32768, 65535, 65536, 65537, 70000, 200000} {
		for where := 0; where < 3; where++ {
			for _, crlf := range []bool{false, true} {
				nd++
				key := fmt.Sprintf("d:L=%d where=%d crlf=%v", L, where, crlf)
				if !r.MineIdx(nd) {
					continue
				}
				d := gen.GenDump(fixedChooser{"goroutines": 2, "g0.creator": 2, "g2.minutes": 2}, env)
				d.F.CRLF = crlf
				if len(d.Gs) != 3 || len(d.Gs[1].Calls) == 0 {
					r.Note("part (d): the generator's default goroutine has no frame; part skipped")
					continue
				}
				c := &d.Gs[1].Calls[0]
				switch where {
				case 0:
					c.Pkg, c.Name = "main", "Map[go.shape."+strings.Repeat("x", L)+"]"
				case 1:
					c.Args = gen.Args{}
					for len(c.Args.String()) < L {
						c.Args.Vals = append(c.Args.Vals, gen.Arg{Val: uint64(0xc000000000 + len(c.Args.Vals))})
					}
				case 2:
					c.File = "/home/user/" + strings.Repeat("d/", L/2) + "f.go"
				}
				v := r.Check(func() *h.Viol { return checkDumpParse(d, "panic: x\n\n", "exit status 2\n", key) })
				out := "ok"
				if v != nil {
					out = v.Fingerprint
				}
				r.Record(key, true, out)
			}
		}
	}
	if r.Shard == 0 {
		r.Add("long_line_dumps_part_d", nd)
	}
	// (e) twins: the third goroutine repeats the second one's frames and arguments and
	// differs in exactly one attribute of one argument (a "?" mark, "_", the value, a
	// nested field, the trailing "...") or of the header; parsed under every combination
	// of the stages that run after the parser (naming, path guessing, source analysis)
	type twinEdit struct {
		name string
		edit func(g *gen.Goroutine)
	}
	baseArgs := func() gen.Args {
		return gen.Args{Vals: []gen.Arg{{Val: 0xc000012340}, {Agg: true, Fields: gen.Args{Vals: []gen.Arg{{Val: 0x2}, {Val: 0xc000045678}}}}, {Val: 0x7}}}
	}
	edits := []twinEdit{
		{"identical", func(g *gen.Goroutine) {}},
		{"inaccurate-top", func(g *gen.Goroutine) { g.Calls[0].Args.Vals[0].Inaccurate = true }},
		{"inaccurate-last", func(g *gen.Goroutine) { g.Calls[0].Args.Vals[2].Inaccurate = true }},
		{"inaccurate-nested", func(g *gen.Goroutine) { g.Calls[0].Args.Vals[1].Fields.Vals[1].Inaccurate = true }},
		{"too-large", func(g *gen.Goroutine) { g.Calls[0].Args.Vals[2] = gen.Arg{TooLarge: true} }},
		{"value", func(g *gen.Goroutine) { g.Calls[0].Args.Vals[2].Val = 0x8 }},
		{"pointer", func(g *gen.Goroutine) { g.Calls[0].Args.Vals[0].Val = 0xc0000789a0 }},
		{"nested-value", func(g *gen.Goroutine) { g.Calls[0].Args.Vals[1].Fields.Vals[0].Val = 0x3 }},
		{"elided", func(g *gen.Goroutine) { g.Calls[0].Args.Elided = true }},
		{"nested-elided", func(g *gen.Goroutine) { g.Calls[0].Args.Vals[1].Fields.Elided = true }},
		{"minutes", func(g *gen.Goroutine) { g.Minutes = 7 }},
		{"locked", func(g *gen.Goroutine) { g.Locked = true }},
		{"second-frame-inaccurate", func(g *gen.Goroutine) { g.Calls[1].Args.Vals[0].Inaccurate = true }},
	}
	optSets := []struct {
		tag  string
		opts func() *Opts
	}{
		{"", plainOpts},
		{":naming", func() *Opts { return &Opts{NameArguments: true} }},
		{":guess-paths", func() *Opts { return &Opts{GuessPaths: true} }},
		{":naming+guess-paths", func() *Opts { return &Opts{NameArguments: true, GuessPaths: true} }},
		{":all-stages-on", DefaultOpts},
	}
	ne := 0
	for _, ed := range edits {
		for _, first := range []bool{false, true} {
			for _, os := range optSets {
				ne++
				key := fmt.Sprintf("e:%s twin-first=%v%s", ed.name, first, os.tag)
				if !r.MineIdx(ne) {
					continue
				}
				d := gen.GenDump(fixedChooser{"goroutines": 2}, env)
				if len(d.Gs) != 3 || len(d.Gs[1].Calls) == 0 {
					continue
				}
				mkG := func(id int) gen.Goroutine {
					g := d.Gs[1]
					g.ID = id
					c0 := g.Calls[0]
					c0.Args = baseArgs()
					c1 := c0
					c1.Name, c1.Line = c0.Name+"2", c0.Line+3
					c1.Args = gen.Args{Vals: []gen.Arg{{Val: 0xc000012340}}}
					g.Calls = []gen.Call{c0, c1}
					return g
				}
				a, b := mkG(21), mkG(22)
				if first {
					ed.edit(&a)
				} else {
					ed.edit(&b)
				}
				d.Gs[1], d.Gs[2] = a, b
				v := r.Check(func() *h.Viol { return checkDumpParseOpts(d, "", "exit status 2\n", key, os.opts(), os.tag) })
				out := "ok"
				if v != nil {
					out = v.Fingerprint
				}
				r.Record(key, true, out)
			}
		}
	}
	if r.Shard == 0 {
		r.Add("twin_dumps_part_e", ne)
	}
}

func replayC01(t *testing.T, rv *h.Viol, env *gen.Env) {
	in := rv.Input()
	res := scanOnce(bytes.NewReader(in), plainOpts())
	t.Logf("replay %s (%s)\ninput (%d bytes):\n%s", rv.Key, rv.Fingerprint, len(in), trunc(string(in)))
	t.Logf("recorded: %s", rv.Summary)
	if res.panicked != "" {
		t.Errorf("panic: %s", res.panicked)
		return
	}
	t.Logf("now: err=%v prefix=%q suffix=%q", res.err, trunc(string(res.prefix)), trunc(string(res.suffix)))
	if res.snap != nil {
		for i, g := range res.snap.Goroutines {
			t.Logf("goroutine[%d]: id=%d first=%v state=%q sleep=%d locked=%v created=%s stack=%s", i, g.ID, g.First, g.State, g.SleepMin, g.Locked, trunc(renderStack(&g.CreatedBy)), trunc(renderStack(&g.Stack)))
		}
	}
	// re-run the recorded choice vector when it is an (a) case
	if strings.HasPrefix(rv.Key, "a:") {
		c := h.RunVector(h.ParseKey(rv.Key[2:]), func(c *h.Ctx) {
			d := gen.GenDump(c, env)
			sur := surrounds[c.Choose(len(surrounds), "surround")]
			if d.F.NoFinalNL {
				sur[1] = ""
			}
			if v := checkDumpParse(d, sur[0], sur[1], rv.Key); v != nil {
				t.Errorf("VIOLATION reproduced: %s: %s", v.Fingerprint, v.Summary)
			} else {
				t.Logf("no violation on this tree")
			}
		})
		t.Logf("choices: %s", c.Labels())
	}
}
