//go:build verif

package stack

// C06: determinism. In the mapchoice build every map iteration is a choice point;
// for each input all permutations (maps of <= 4 keys) with a bounded number of
// loops deviating from the canonical order are enumerated and the digest of
// every observable must be unique. The plain build repeats each input to confirm.

import (
	"bytes"
	"fmt"
	"html/template"
	"os"
	"os/exec"
	"path/filepath"
	"regexp"
	"strings"
	"testing"

	"github.com/maruel/panicparse/v2/internal/verifx/h"
	"github.com/maruel/panicparse/v2/internal/verifx/mc"
)

var reCreatedOn = regexp.MustCompile(`<li>Created on [^<]*</li>`)

func permByIndex(n, idx int) []int {
	// idx-th permutation of 0..n-1 in lexicographic order
	elems := make([]int, n)
	for i := range elems {
		elems[i] = i
	}
	fact := 1
	for i := 2; i < n; i++ {
		fact *= i
	}
	var out []int
	for i := n - 1; i >= 0; i-- {
		k := 0
		if fact > 0 {
			k = idx / fact
			idx %= fact
		}
		out = append(out, elems[k])
		elems = append(elems[:k], elems[k+1:]...)
		if i > 0 {
			fact /= i
		}
	}
	return out
}

func factorial(n int) int {
	f := 1
	for i := 2; i <= n; i++ {
		f *= i
	}
	return f
}

// installChooser makes the explorer own the map orders. It returns a func reporting
// whether some loop had more than 4 keys (rotations+reversal only).
func installChooser(c *h.Ctx) func() bool {
	big := false
	mc.Chooser = func(site string, n int) []int {
		if n <= 4 {
			k := c.Choose(factorial(n), fmt.Sprintf("%s[%d]", site, n))
			if k == 0 {
				return nil
			}
			return permByIndex(n, k)
		}
		big = true
		k := c.Choose(n+1, fmt.Sprintf("%s[%d:rot]", site, n))
		if k == 0 {
			return nil
		}
		p := make([]int, n)
		if k == n {
			for i := range p {
				p[i] = n - 1 - i
			}
			return p
		}
		for i := range p {
			p[i] = (i + k) % n
		}
		return p
	}
	return func() bool { return big }
}

type c06Input struct {
	name string
	text []byte
	opts func(root string) *Opts
	fs   bool
}

func c06FS(root string) {
	files := map[string]string{
		"goroot/src/fmt/print.go":                  "package fmt\n",
		"gp1/src/example.com/a/a.go":               "package a\n",
		"gp1/src/nested/src/pkg/f.go":              "package pkg\n",
		"gp1/src/nested/src/pkg/g.go":              "package pkg\n",
		"gp1/pkg/mod/github.com/u/dep@v1.0.0/d.go": "package dep\n",
		"gp2/src/example.com/b/b.go":               "package b\n",
		"m/go.mod":                                 "module example.com/m\n",
		"m/x.go":                                   "package m\n",
		"m/sub/go.mod":                             "module example.com/m/sub\n",
		"m/sub/y.go":                               "package sub\n",
		"m/sub/deep/z.go":                          "package deep\n",
		"m2/go.mod":                                "module example.com/m2\n",
		"m2/w.go":                                  "package m2\n",
		"run/main.go":                              "package main\n",
		// the same package checked out under two GOPATH entries
		"gp2/src/example.com/a/a.go": "package a\n\n// second checkout\n",
		// GOPATH-mode vendoring below a package of the first entry
		"gp1/src/example.com/a/vendor/github.com/x/y/y.go": "package y\n",
		// a package that only the first GOPATH entry has
		"gp1/src/example.com/only1/o.go": "package only1\n",
		// a go.mod without a module line between a file and its real module root
		"m/sub/deep/tools/go.mod":   "// no module directive here\n",
		"m/sub/deep/tools/gen/g.go": "package gen\n",
	}
	for p, content := range files {
		full := filepath.Join(root, p)
		_ = os.MkdirAll(filepath.Dir(full), 0o755)
		_ = os.WriteFile(full, []byte(content), 0o644)
	}
}

func c06Inputs(root string) []c06Input {
	plain := func(string) *Opts { return &Opts{NameArguments: true} }
	var in []c06Input
	add := func(name, text string, o func(string) *Opts, fs bool) {
		in = append(in, c06Input{name, []byte(text), o, fs})
	}
	g := func(id int, state, fn, args, file string, line int) string {
		return fmt.Sprintf("goroutine %d [%s]:\n%s(%s)\n\t%s:%d +0x1\n\n", id, state, fn, args, file, line)
	}
	// buckets that tie under the comparator
	add("tie-3-values", g(1, "running", "main.main", "", "/a/m.go", 1)+g(2, "select", "main.f", "0x1", "/a/b.go", 10)+g(3, "select", "main.f", "0x2", "/a/b.go", 10)+g(4, "select", "main.f", "0x3", "/a/b.go", 10), plain, false)
	add("tie-2-pairs", g(1, "running", "main.main", "", "/a/m.go", 1)+g(2, "select", "main.f", "0x1", "/a/b.go", 10)+g(3, "select", "main.f", "0x2", "/a/b.go", 10)+g(4, "select", "main.f", "0x1", "/a/b.go", 10)+g(5, "select", "main.f", "0x2", "/a/b.go", 10), plain, false)
	add("tie-elided-vs-not", g(1, "running", "main.main", "", "/a/m.go", 1)+g(2, "select", "main.f", "0x1", "/a/b.go", 10)+g(3, "select", "main.f", "0x1, ...", "/a/b.go", 10)+g(4, "select", "main.f", "{0x1}", "/a/b.go", 10), plain, false)
	add("tie-created-by", g(1, "running", "main.main", "", "/a/m.go", 1)+strings.TrimSuffix(g(2, "select", "main.f", "", "/a/b.go", 10), "\n")+"created by main.x\n\t/a/x.go:1 +0x1\n\n"+strings.TrimSuffix(g(3, "select", "main.f", "", "/a/b.go", 10), "\n")+"created by main.y\n\t/a/x.go:2 +0x1\n\n", plain, false)
	// pointer distributions
	add("pointers", g(1, "running", "main.main", "0xc000012340, 0xc000045678", "/a/m.go", 1)+g(2, "select", "main.f", "0xc000045678, 0xc0000789a0", "/a/b.go", 10)+g(3, "select", "main.f", "0xc0000789a0, 0xc000012340", "/a/b.go", 10)+g(4, "chan send", "main.h", "0xc0000aaaa0, 0xc0000aaaa0, {0xc0000bbbb0}", "/a/b.go", 12)+g(5, "chan send", "main.h", "0xc0000bbbb0, 0xc0000cccc0, {0xc0000cccc0}", "/a/b.go", 12), plain, false)
	// a position that holds a pointer in some goroutines and a plain value in others
	add("pointer-or-value", g(1, "running", "main.main", "", "/a/m.go", 1)+g(2, "select", "main.f", "0x0", "/a/b.go", 10)+g(3, "select", "main.f", "0xc000012340", "/a/b.go", 10)+g(4, "select", "main.f", "0x0", "/a/b.go", 10)+g(5, "select", "main.f", "0xc000045678", "/a/b.go", 10)+g(6, "select", "main.f", "0x5", "/a/b.go", 10), plain, false)
	// race reports
	add("race", string(c15Text([]uint64{0xc000012340, 0xc000045678, 0xc000012340, 0xc000045678, 5, 0xc000012340}, true)), plain, false)
	// file-system layouts
	fsOpts := func(gopaths ...string) func(string) *Opts {
		return func(root string) *Opts {
			o := &Opts{NameArguments: true, GuessPaths: true, LocalGOROOT: root + "/goroot"}
			for _, gp := range gopaths {
				o.LocalGOPATHs = append(o.LocalGOPATHs, root+"/"+gp)
			}
			return o
		}
	}
	R := root
	add("fs-nested-modules", g(1, "running", "main.main", "", R+"/run/main.go", 3)+g(2, "select", "example.com/m.X", "0x1", R+"/m/x.go", 10)+g(3, "select", "example.com/m/sub.Y", "0x2", R+"/m/sub/y.go", 11)+g(4, "select", "example.com/m/sub/deep.Z", "0x3", R+"/m/sub/deep/z.go", 12)+g(5, "select", "example.com/m2.W", "", R+"/m2/w.go", 13), fsOpts("gp1"), true)
	add("fs-nested-modules-inner-first", g(1, "running", "example.com/m/sub.Y", "0x2", R+"/m/sub/y.go", 11)+g(2, "select", "example.com/m.X", "0x1", R+"/m/x.go", 10)+g(3, "select", "example.com/m/sub/deep.Z", "0x3", R+"/m/sub/deep/z.go", 12), fsOpts("gp1"), true)
	add("fs-outer-module-only", g(1, "running", "example.com/m.X", "0x1", R+"/m/x.go", 10)+g(2, "select", "example.com/m.X2", "0x2", R+"/m/x.go", 12), fsOpts("gp1"), true)
	add("fs-inner-module-only", g(1, "running", "example.com/m/sub/deep.Z", "0x3", R+"/m/sub/deep/z.go", 12)+g(2, "select", "example.com/m/sub.Y", "0x2", R+"/m/sub/y.go", 11), fsOpts("gp1"), true)
	add("fs-overlapping-gopaths", g(1, "running", "example.com/a.A", "", "/remote/gp/src/example.com/a/a.go", 3)+g(2, "select", "pkg.F", "0x1", "/remote/gp/src/nested/src/pkg/f.go", 10)+g(3, "select", "pkg.G", "0x1", "/remote/gp/src/nested/src/pkg/g.go", 11)+g(4, "select", "github.com/u/dep.D", "", "/remote/gp/pkg/mod/github.com/u/dep@v1.0.0/d.go", 2), fsOpts("gp1", "gp1/src/nested"), true)
	add("fs-overlapping-gopaths-reversed", g(1, "running", "pkg.F", "0x1", "/remote/gp/src/nested/src/pkg/f.go", 10)+g(2, "select", "example.com/a.A", "", "/remote/gp/src/example.com/a/a.go", 3)+g(3, "select", "pkg.G", "0x1", "/remote/gp/src/nested/src/pkg/g.go", 11), fsOpts("gp1/src/nested", "gp1"), true)
	add("fs-two-gopaths-goroot", g(1, "running", "fmt.Println", "", "/remote/go/src/fmt/print.go", 3)+g(2, "select", "example.com/a.A", "", "/r1/src/example.com/a/a.go", 3)+g(3, "select", "example.com/b.B", "", "/r2/src/example.com/b/b.go", 4)+g(4, "select", "example.com/b.B2", "", "/r2/src/example.com/b/missing.go", 4), fsOpts("gp1", "gp2"), true)
	// the same remote roots as the inputs above, but nothing under them resolves
	// locally (what an earlier input taught the process about a root must not leak)
	add("fs-roots-unresolvable", g(1, "running", "nosuch.F", "", "/remote/go/src/nosuch/zz.go", 3)+g(2, "select", "example.com/none.N", "", "/r1/src/example.com/none/none.go", 3)+g(3, "select", "example.com/none2.N", "", "/remote/gp/src/example.com/none2/none.go", 4)+g(4, "select", "example.com/m.Missing", "", R+"/m/missing.go", 4), fsOpts("gp1", "gp2"), true)
	add("fs-same-file-two-gopaths", g(1, "running", "example.com/a.A", "0x1", "/r1/src/example.com/a/a.go", 3)+g(2, "select", "example.com/b.B", "", "/r1/src/example.com/b/b.go", 4), fsOpts("gp1", "gp2"), true)
	add("fs-same-file-two-gopaths-reversed", g(1, "running", "example.com/a.A", "0x1", "/r1/src/example.com/a/a.go", 3)+g(2, "select", "example.com/b.B", "", "/r1/src/example.com/b/b.go", 4), fsOpts("gp2", "gp1"), true)
	// three remote roots: the first two each resolve to one GOPATH entry, the package
	// under the third exists in both entries
	add("fs-three-remote-roots", g(1, "running", "example.com/only1.O", "0x1", "/rA/src/example.com/only1/o.go", 3)+g(2, "select", "example.com/b.B", "", "/rB/src/example.com/b/b.go", 4)+g(3, "select", "example.com/a.A", "0x2", "/rC/src/example.com/a/a.go", 5), fsOpts("gp1", "gp2"), true)
	add("fs-three-remote-roots-reversed", g(1, "running", "example.com/only1.O", "0x1", "/rA/src/example.com/only1/o.go", 3)+g(2, "select", "example.com/b.B", "", "/rB/src/example.com/b/b.go", 4)+g(3, "select", "example.com/a.A", "0x2", "/rC/src/example.com/a/a.go", 5), fsOpts("gp2", "gp1"), true)
	// a race report whose creation stacks (whole stacks there) are the only place where the
	// nested modules' files appear
	add("fs-race-creation-nested-modules", "==================\nWARNING: DATA RACE\nWrite at 0x00c000014100 by goroutine 7:\n  main.w()\n      "+R+"/run/main.go:5 +0x3a\n\nPrevious read at 0x00c000014100 by goroutine 8:\n  main.r()\n      "+R+"/run/main.go:9 +0x3a\n\nGoroutine 7 (running) created at:\n  example.com/m/sub.Y()\n      "+R+"/m/sub/y.go:11 +0x1\n  example.com/m.X()\n      "+R+"/m/x.go:10 +0x1\n  example.com/m/sub/deep.Z()\n      "+R+"/m/sub/deep/z.go:12 +0x1\n\nGoroutine 8 (finished) created at:\n  example.com/m2.W()\n      "+R+"/m2/w.go:13 +0x1\n  example.com/m.X()\n      "+R+"/m/x.go:10 +0x1\n==================\n", fsOpts("gp1"), true)
	add("fs-gomod-without-module-line", g(1, "running", "example.com/m/sub/deep/tools/gen.G", "0x1", R+"/m/sub/deep/tools/gen/g.go", 3)+g(2, "select", "example.com/m/sub/deep.Z", "0x3", R+"/m/sub/deep/z.go", 12), fsOpts("gp1"), true)
	add("fs-goroot-other-remote", g(1, "running", "fmt.Println", "", "/other/go/src/fmt/print.go", 3)+g(2, "select", "nosuch.F", "", "/remote/go/src/nosuch/zz.go", 3)+g(3, "select", "example.com/a.A", "", "/r2/src/example.com/a/a.go", 3), fsOpts("gp1", "gp2"), true)
	return in
}

// c06Digest runs the whole pipeline and renders every observable.
func c06Digest(in *c06Input, root string) (digest string, panicked string) {
	defer func() {
		if e := recover(); e != nil {
			panicked = fmt.Sprint(e)
		}
	}()
	var b strings.Builder
	res := scanOnce(bytes.NewReader(in.text), in.opts(root))
	if res.panicked != "" {
		return "", res.panicked
	}
	fmt.Fprintf(&b, "err=%v\nprefix=%q\nsuffix=%q\nsnapshot:\n%s\n", res.err, res.prefix, res.suffix, canonSnapshot(res.snap))
	if res.snap != nil {
		for lv := ExactFlags; lv <= AnyValue; lv++ {
			a := res.snap.Aggregate(lv)
			fmt.Fprintf(&b, "%s:\n%s\n", levelNames[lv], describeBuckets(a))
			if lv == AnyPointer {
				var hb bytes.Buffer
				if err := a.ToHTML(&hb, template.HTML("")); err != nil {
					fmt.Fprintf(&b, "html error %v\n", err)
				}
				b.WriteString(reCreatedOn.ReplaceAllString(hb.String(), "<li>Created on X</li>"))
			}
		}
		var hb bytes.Buffer
		_ = res.snap.ToHTML(&hb, template.HTML(""))
		b.WriteString(reCreatedOn.ReplaceAllString(hb.String(), "<li>Created on X</li>"))
	}
	return strings.ReplaceAll(b.String(), root, "$ROOT"), ""
}

// c06Explain names what differs between two digests.
func c06Explain(a, b string) (cat, detail string) {
	la, lb := strings.Split(a, "\n"), strings.Split(b, "\n")
	section := ""
	for i := 0; i < len(la) && i < len(lb); i++ {
		if strings.HasSuffix(la[i], ":") && len(la[i]) < 20 {
			section = strings.TrimSuffix(la[i], ":")
		}
		if la[i] != lb[i] {
			cat = "differs-in-" + section
			if strings.Contains(la[i], "<") {
				cat = "differs-in-html"
			}
			return cat, fmt.Sprintf("line %d: %q vs %q", i, trunc(la[i]), trunc(lb[i]))
		}
	}
	return "differs-in-length", ""
}

func TestVerifC06(t *testing.T) {
	r := h.Start("C06")
	defer r.Finish(func(s string) { t.Error(s) })
	root, err := os.MkdirTemp(os.Getenv("VERIF_SCRATCH"), "c06fs")
	if err != nil {
		t.Fatal(err)
	}
	defer os.RemoveAll(root)
	c06FS(root)
	inputs := c06Inputs(root)
	instrumented := envPart() == "mapchoice"
	bound := r.Pick(2, 3)
	r.Set("rule", fmt.Sprintf("mapchoice build: every `range <map>` of packages stack/internal iterates in an explorer-owned order; for each of %d inputs (buckets tying under the comparator, pointer distributions, race report, file-system layouts with nested modules / overlapping GOPATH roots / two GOPATHs) all permutations of every map of <=4 keys (rotations+reversal beyond) with <=%d loops deviating from the canonical order; pipeline scan -> guess paths -> aggregate x4 -> HTML x2; oracle: one digest per input. plain build: each input repeated in one process (Go's own randomised map order) and compared. non-trivial = at least one loop deviates; distinct = (input, permutation vector)", len(inputs), bound))
	r.Set("assumptions", []string{"an order-dependence found under mapchoice is an outcome the Go specification allows; it is confirmed on the uninstrumented build by the repetition part where the runtime produces it", "console text is a function of the aggregated buckets and contains no map range (checked by the instrumentation tool: no site in package internal)"})
	if rv := r.ReplayFile(); rv != nil {
		t.Logf("replay %s: %s\nexpected:\n%s\nobserved:\n%s", rv.Key, rv.Summary, trunc(rv.Expected), trunc(rv.Observed))
		return
	}
	if !instrumented {
		// repetition on the uninstrumented build
		reps := r.Pick(300, 3000)
		for ii := range inputs {
			in := &inputs[ii]
			if !r.MineIdx(ii) {
				continue
			}
			ref, p := c06Digest(in, root)
			if p != "" {
				r.Report(&h.Viol{Fingerprint: "C06/panic", Summary: in.name + ": " + p, Key: in.name, Reproduced: 5})
				continue
			}
			distinct := map[string]bool{ref: true}
			for k := 0; k < reps; k++ {
				d, _ := c06Digest(in, root)
				if !distinct[d] {
					distinct[d] = true
					if len(distinct) == 2 {
						cat, det := c06Explain(ref, d)
						r.Report(&h.Viol{Fingerprint: "C06/" + cat + ":" + in.name, Summary: fmt.Sprintf("input %s: two executions in one process differ (%s) %s", in.name, cat, det), Key: "plain " + in.name, Kind: "repeat", Expected: ref, Observed: d, Reproduced: 5, InputText: string(in.text)})
					}
				}
				r.Record(fmt.Sprintf("plain %s #%d", in.name, k), true, h.Hash(d))
			}
			r.Add("repetitions_plain_build", reps)
		}
		return
	}
	for ii := range inputs {
		in := &inputs[ii]
		mc.Chooser = nil
		ref, p := c06Digest(in, root)
		if p != "" {
			if r.Shard == 0 {
				r.Report(&h.Viol{Fingerprint: "C06/panic", Summary: in.name + ": " + p, Key: in.name, Reproduced: 5})
			}
			continue
		}
		anyBig := false
		n, complete := h.ExploreSharded(bound, r.Shard, r.N, r.Expired, func(c *h.Ctx, owned bool) {
			big := installChooser(c)
			d, p := c06Digest(in, root)
			mc.Chooser = nil
			if big() {
				anyBig = true
			}
			key := in.name + ":" + c.Key()
			if !owned {
				return
			}
			if p != "" {
				r.Report(&h.Viol{Fingerprint: "C06/panic", Summary: in.name + ": " + p, Key: key, Reproduced: 5})
				return
			}
			if d != ref {
				cat, det := c06Explain(ref, d)
				// confirm reproducibility of the vector
				c2 := h.RunVector(append([]int{}, c.Choices...), func(c2 *h.Ctx) {
					installChooser(c2)
					d2, _ := c06Digest(in, root)
					mc.Chooser = nil
					if d2 != d {
						cat = "unreproducible"
					}
				})
				_ = c2
				r.Report(&h.Viol{Fingerprint: "C06/" + cat + ":" + in.name, Summary: fmt.Sprintf("input %s: map iteration order %s changes the output (%s) %s", in.name, c.Labels(), cat, det), Key: key, Kind: "mapchoice", Expected: ref, Observed: d, Reproduced: 5, InputText: string(in.text)})
			}
			r.Record(key, c.Deviations() > 0, h.Hash(d))
			if c.Deviations() == 2 && len(c.Choices) > 3 {
				r.Sample(map[string]any{"input": in.name, "map_orders": c.Labels()})
			}
		})
		r.Add("permutation_vectors", n)
		if !complete {
			r.Set("exhaustive_within_bound", false)
		}
		if anyBig {
			r.Note("input %s has a map loop with more than 4 keys: rotations and reversal only for that loop", in.name)
		}
	}
	if r.Shard == 0 {
		var sites []string
		for s, n := range mc.Visits {
			sites = append(sites, fmt.Sprintf("%s x%d", s, n))
		}
		r.Set("map_range_sites_executed", len(sites))
	}
}

// TestVerifC06History: nothing observable depends on earlier calls in the same
// process: every operation after every operation history of length <= 3 (4 in
// thorough) gives the result it gives in a fresh process state. Shares the
// operation alphabet of C14.
func TestVerifC06History(t *testing.T) {
	r := h.Start("C06")
	defer r.Finish(func(s string) { t.Error(s) })
	if r.ReplayFile() != nil {
		return
	}
	inputs := c14Inputs()
	ops := c14Ops()
	depth := r.Pick(3, 4)
	// reference results: each operation as the first thing done to a freshly parsed snapshot
	ref := make([][]string, len(inputs))
	for i := range inputs {
		for _, op := range ops {
			s := scanOnce(bytes.NewReader(inputs[i].text), &Opts{NameArguments: true}).snap
			ref[i] = append(ref[i], op.run(s, &inputs[i], &Opts{NameArguments: true}))
		}
	}
	seq := 0
	for ii := range inputs {
		var rec func(hist []int)
		rec = func(hist []int) {
			if len(hist) > 0 {
				seq++
				if r.MineIdx(seq) && !r.Expired() {
					key := fmt.Sprintf("history %s %v", inputs[ii].name, hist)
					v := r.Check(func() *h.Viol {
						opts := &Opts{NameArguments: true}
						s := scanOnce(bytes.NewReader(inputs[ii].text), opts).snap
						var names []string
						for _, o := range hist {
							names = append(names, ops[o].name)
							got := ops[o].run(s, &inputs[ii], opts)
							if got != ref[ii][o] {
								return &h.Viol{Fingerprint: "C06/depends-on-earlier-calls:" + ops[o].name, Summary: fmt.Sprintf("input %s: after %s the result of %s differs from its result in a fresh state", inputs[ii].name, strings.Join(names[:len(names)-1], " ; "), ops[o].name), Key: key, Kind: "history", Expected: trunc(ref[ii][o]), Observed: trunc(got)}
							}
						}
						return nil
					})
					out := "ok"
					if v != nil {
						out = v.Fingerprint
					}
					r.Record(key, len(hist) > 1, out)
				}
			}
			if len(hist) == depth {
				return
			}
			for o := range ops {
				rec(append(append([]int{}, hist...), o))
			}
		}
		rec(nil)
	}
}

// TestVerifC06Sub is run in a child process: it renders the inputs named in
// VERIF_C06_SEQ one after the other and prints the digest of the last one.
func TestVerifC06Sub(t *testing.T) {
	seq := os.Getenv("VERIF_C06_SEQ")
	root := os.Getenv("VERIF_C06_ROOT")
	if seq == "" || root == "" {
		return
	}
	inputs := c06Inputs(root)
	last := ""
	for _, name := range strings.Split(seq, ",") {
		for i := range inputs {
			if inputs[i].name == name {
				d, p := c06Digest(&inputs[i], root)
				last = h.Hash(d + p)
			}
		}
	}
	fmt.Printf("C06DIGEST %s\n", last)
}

func c06Child(root, seq string) string {
	cmd := exec.Command(os.Args[0], "-test.run", "^TestVerifC06Sub$", "-test.count=1")
	cmd.Env = append(os.Environ(), "VERIF_C06_SEQ="+seq, "VERIF_C06_ROOT="+root, "VERIF_OUT=", "VERIF_REPLAY=")
	out, _ := cmd.CombinedOutput()
	for _, l := range strings.Split(string(out), "\n") {
		if strings.HasPrefix(l, "C06DIGEST ") {
			return strings.TrimPrefix(l, "C06DIGEST ")
		}
	}
	return "child-failed: " + trunc(string(out))
}

// TestVerifC06Processes: the result for an input does not depend on what the same
// process handled before: for every ordered pair of inputs a
// child process handles them in that order and the digest of the last one must
// equal the digest a fresh child process computes for it alone.
func TestVerifC06Processes(t *testing.T) {
	r := h.Start("C06")
	defer r.Finish(func(s string) { t.Error(s) })
	if r.ReplayFile() != nil {
		return
	}
	root, err := os.MkdirTemp(os.Getenv("VERIF_SCRATCH"), "c06p")
	if err != nil {
		t.Fatal(err)
	}
	defer os.RemoveAll(root)
	c06FS(root)
	inputs := c06Inputs(root)
	fresh := map[string]string{}
	seq := 0
	for xi := range inputs {
		for yi := range inputs {
			seq++
			if !r.MineIdx(seq) || r.Expired() {
				continue
			}
			x, y := inputs[xi].name, inputs[yi].name
			if _, ok := fresh[x]; !ok {
				fresh[x] = c06Child(root, x)
				if fresh[x] != c06Child(root, x) {
					r.Report(&h.Viol{Fingerprint: "C06/two-fresh-processes-differ:" + x, Summary: "input " + x + ": two fresh processes give different output", Key: "fresh " + x, Reproduced: 5})
				}
				r.Add("child_processes", 2)
			}
			key := fmt.Sprintf("process-history %s then %s", y, x)
			got := c06Child(root, y+","+x)
			r.Add("child_processes", 1)
			if got != fresh[x] {
				r.Report(&h.Viol{Fingerprint: "C06/depends-on-earlier-input-in-process:" + x, Summary: fmt.Sprintf("input %s rendered after %s in the same process differs from its rendering in a fresh process", x, y), Key: key, Kind: "process-history", Expected: fresh[x], Observed: got, Reproduced: 5})
			}
			r.Record(key, xi != yi, fmt.Sprint(got == fresh[x])+x)
		}
	}
}

// TestVerifC06Agg (mapchoice build): Aggregate on every ordered triple of a universe
// of goroutines that are pairwise "nearly similar" (same frame; the argument is a
// pointer, another pointer, nil, a small value, an aggregate; locked or not; slept or
// not) x 4 levels, under every order of every map loop (all loops have <= 3 keys, so
// this is every order): one result per (triple, level).
func TestVerifC06Agg(t *testing.T) {
	r := h.Start("C06")
	defer r.Finish(func(s string) { t.Error(s) })
	if rv := r.ReplayFile(); rv != nil {
		t.Logf("replay %s: %s\nexpected:\n%s\nobserved:\n%s", rv.Key, rv.Summary, rv.Expected, rv.Observed)
		return
	}
	var u []sigAttr
	argShapes := []int{0, 1, 2, 3, 4, 22, 5, 6, 8, 10, 13, 18, 20, 23, 25}
	if r.Thorough() {
		argShapes = nil
		for i := range sigArgShapes {
			argShapes = append(argShapes, i)
		}
	}
	for _, a := range argShapes {
		for lk := 0; lk < 2; lk++ {
			for sl := 0; sl < 2; sl++ {
				if !r.Thorough() && lk == 1 && sl == 1 {
					continue
				}
				u = append(u, sigAttr{args: a, locked: lk, sleep: sl})
			}
		}
	}
	r.Set("aggregate_universe", len(u))
	render := func(idx []int, level Similarity) (string, string) {
		s := &Snapshot{}
		for k, i := range idx {
			g := u[i].build(true)
			g.ID = aggIDs[k]
			g.First = k == 0
			s.Goroutines = append(s.Goroutines, g)
		}
		a, p := safeAggregate(s, level)
		if p != "" {
			return "", p
		}
		return describeBuckets(a), ""
	}
	seq := 0
	vectors := 0
	n := len(u)
	for i := 0; i < n; i++ {
		for j := 0; j < n; j++ {
			for k := 0; k < n; k++ {
				seq++
				if !r.MineIdx(seq) || r.Expired() {
					continue
				}
				idx := []int{i, j, k}
				for level := ExactFlags; level <= AnyValue; level++ {
					mc.Chooser = nil
					ref, p := render(idx, level)
					key := fmt.Sprintf("agg %v %s", idx, levelNames[level])
					if p != "" {
						r.Report(&h.Viol{Fingerprint: "C06/agg-panic:" + firstLine(p), Summary: key + ": " + firstLine(p), Key: key, Reproduced: 5})
						continue
					}
					bad := false
					nv, _ := h.Explore(-1, r.Expired, func(c *h.Ctx) {
						if bad {
							return
						}
						installChooser(c)
						d, p := render(idx, level)
						mc.Chooser = nil
						if d != ref || p != "" {
							bad = true
							r.Report(&h.Viol{Fingerprint: "C06/aggregate-depends-on-map-order:" + levelNames[level], Summary: fmt.Sprintf("goroutines [%s | %s | %s] at %s: map iteration order %s changes the buckets", u[i], u[j], u[k], levelNames[level], c.Labels()), Key: key, Kind: "mapchoice-agg", Expected: ref, Observed: d + p, Reproduced: 5})
						}
					})
					vectors += nv
					r.Record(key, nv > 1, h.Hash(ref))
				}
			}
		}
	}
	r.Add("aggregate_permutation_vectors", vectors)
	// pointer naming: every assignment of {three pointers, one plain value} to six
	// argument slots (the dump layout of C15), parsed under every order of every map loop
	vals := []uint64{0xc000012340, 0xc000045678, 0xc0000789a0, 5}
	nameVectors := 0
	for m := 0; m < 1<<12; m++ {
		seq++
		if !r.MineIdx(seq) || r.Expired() {
			continue
		}
		vs := make([]uint64, 6)
		for i := range vs {
			vs[i] = vals[m>>(2*i)&3]
		}
		for _, race := range []bool{false, true} {
			in := c15Text(vs, race)
			key := fmt.Sprintf("names %x race=%v", vs, race)
			mc.Chooser = nil
			ref := canonSnapshot(scanOnce(bytes.NewReader(in), &Opts{NameArguments: true}).snap)
			bad := false
			nv, _ := h.Explore(-1, r.Expired, func(c *h.Ctx) {
				if bad {
					return
				}
				installChooser(c)
				res := scanOnce(bytes.NewReader(in), &Opts{NameArguments: true})
				mc.Chooser = nil
				if d := canonSnapshot(res.snap); d != ref || res.panicked != "" {
					bad = true
					r.Report(&h.Viol{Fingerprint: "C06/names-depend-on-map-order", Summary: fmt.Sprintf("pointer values %x: map iteration order %s changes the snapshot", vs, c.Labels()), Key: key, Kind: "mapchoice-names", Expected: ref, Observed: d + res.panicked, Reproduced: 5, InputText: string(in)})
				}
			})
			nameVectors += nv
			r.Record(key, nv > 1, h.Hash(ref))
		}
	}
	r.Add("naming_permutation_vectors", nameVectors)
}

// TestVerifC06OptsReuse: the result depends on the *values* in the options, not on what
// the same Opts object was used for before: for every ordered pair (x, y) of the
// file-system inputs, x is scanned with an Opts value which is then overwritten in place
// with y's settings (same object, slices updated element by element where the lengths
// allow) and used to scan y: the digest must be that of y under freshly built options.
func TestVerifC06OptsReuse(t *testing.T) {
	r := h.Start("C06")
	defer r.Finish(func(s string) { t.Error(s) })
	if r.ReplayFile() != nil {
		return
	}
	root, err := os.MkdirTemp(os.Getenv("VERIF_SCRATCH"), "c06o")
	if err != nil {
		t.Fatal(err)
	}
	defer os.RemoveAll(root)
	c06FS(root)
	inputs := c06Inputs(root)
	digestWith := func(in *c06Input, o *Opts) string {
		res := scanOnce(bytes.NewReader(in.text), o)
		if res.panicked != "" {
			return "panic: " + res.panicked
		}
		d := fmt.Sprintf("err=%v\n%s", res.err, canonSnapshot(res.snap))
		if res.snap != nil {
			d += "\n" + describeBuckets(res.snap.Aggregate(AnyPointer))
		}
		return strings.ReplaceAll(d, root, "$ROOT")
	}
	seq := 0
	for xi := range inputs {
		for yi := range inputs {
			seq++
			if !r.MineIdx(seq) || r.Expired() || !inputs[xi].fs || !inputs[yi].fs {
				continue
			}
			x, y := &inputs[xi], &inputs[yi]
			key := fmt.Sprintf("opts-reuse %s then %s", x.name, y.name)
			v := r.Check(func() *h.Viol {
				want := digestWith(y, y.opts(root))
				o := x.opts(root)
				_ = digestWith(x, o)
				yo := y.opts(root)
				// overwrite in place: same object, same backing arrays where they fit
				o.LocalGOROOT, o.GuessPaths, o.AnalyzeSources, o.NameArguments = yo.LocalGOROOT, yo.GuessPaths, yo.AnalyzeSources, yo.NameArguments
				if len(o.LocalGOPATHs) == len(yo.LocalGOPATHs) {
					copy(o.LocalGOPATHs, yo.LocalGOPATHs)
				} else {
					o.LocalGOPATHs = yo.LocalGOPATHs
				}
				if got := digestWith(y, o); got != want {
					return &h.Viol{Fingerprint: "C06/depends-on-earlier-use-of-the-options:" + y.name, Summary: fmt.Sprintf("input %s scanned with an Opts value that was used for %s before and then overwritten with the right settings differs from its scan with fresh options", y.name, x.name), Key: key, Kind: "opts-reuse", Expected: trunc(want), Observed: trunc(got)}
				}
				return nil
			})
			o := "ok"
			if v != nil {
				o = v.Fingerprint
			}
			r.Record(key, xi != yi, o)
		}
	}
}
