//go:build verif

package stack

// C03: total robustness. (a) the product search of C07 viewed for panics and
// termination; (b) bounded-exhaustive grammar-aware edits of seed inputs of both
// grammars: all single (thorough: double) line edits, all single token
// corruptions from finite alphabets, all single byte substitutions of short
// seeds, all truncations; (c) every snapshot obtained is aggregated at 4 levels
// and rendered as HTML both ways; (d) the resume loop terminates within lines+2
// calls; (e) work grows linearly with the input.

import (
	"bytes"
	"fmt"
	"html/template"
	"io"
	"regexp"
	"runtime"
	"runtime/debug"
	"strings"
	"testing"

	"github.com/maruel/panicparse/v2/internal/verifx/gen"
	"github.com/maruel/panicparse/v2/internal/verifx/h"
)

// C03Seeds are complete inputs covering every line kind of both grammars.
func c03Seeds() [][]byte {
	env := genEnv()
	var seeds [][]byte
	contents := []fixedChooser{
		{},
		{"goroutines": 1, "g0.stack-shape": 1, "g0.creator": 2, "g0.f0.argshape": 9, "g0.minutes": 2, "g0.locked": 1, "g1.stack-shape": 6},
		{"goroutines": 2, "g0.f0.sym": 17, "g0.f0.argshape": 14, "g1.stack-shape": 7, "g2.creator": 1, "g2.f0.sym": 4, "g0.f0.file": 3},
		{"indent": 2, "goroutines": 1, "g0.stack-shape": 1, "g1.creator": 1, "crlf": 1},
		{"header-annotation": 1, "frame-annotation": 2, "g0.f0.sym": 22, "g0.f0.file": 5, "g0.stack-shape": 2, "g0.f0.argshape": 25},
		{"g0.stack-shape": 1, "g0.f0.argshape": 20, "g0.f0.leafvalues": 4, "g0.f1.argshape": 30, "g0.f1.sym": 13, "g0.state": 12},
	}
	for _, c := range contents {
		d := gen.GenDump(c, env)
		if len(d.Gs) > 0 && len(d.Gs[0].Calls) > 0 && d.Gs[0].ElidedText == "" && c["g0.stack-shape"] == 1 {
			d.Gs[0].ElidedAt, d.Gs[0].ElidedText = len(d.Gs[0].Calls), "...5 frames elided..."
		}
		seeds = append(seeds, append(append([]byte("panic: boom\n\n"), d.Bytes()...), "exit status 2\n"...))
	}
	for _, c := range raceContents[:4] {
		rc, _ := gen.GenRace(c)
		seeds = append(seeds, append(append([]byte("out\n"), rc.Bytes()...), "Found 1 data race(s)\n"...))
	}
	rc, _ := gen.GenRace(fixedChooser{"ops": 1, "foreign-section": 2, "section-for-op1": 1})
	seeds = append(seeds, rc.Bytes())
	// two dumps and a race report in one stream
	seeds = append(seeds, append(append(append([]byte{}, seeds[0]...), seeds[6]...), seeds[1]...))
	return seeds
}

func splitLines(b []byte) [][]byte {
	var out [][]byte
	for len(b) > 0 {
		i := bytes.IndexByte(b, '\n')
		if i < 0 {
			out = append(out, b)
			break
		}
		out = append(out, b[:i+1])
		b = b[i+1:]
	}
	return out
}

func joinLines(l [][]byte) []byte { return bytes.Join(l, nil) }

var htmlSeen = map[string]bool{}

// robustCheck is the oracle of C03 for one input.
func robustCheck(input []byte, renderHTML bool) *h.Viol {
	nLines := bytes.Count(input, []byte("\n")) + 1
	mk := func(fp, msg string) *h.Viol {
		v := &h.Viol{Fingerprint: "C03/" + fp, Summary: msg, Kind: "input"}
		v.SetInput(input)
		return v
	}
	calls, terminated := resumeLoop(input, plainOpts(), nLines+2)
	for _, c := range calls {
		if c.panicked != "" {
			return mk("panic:"+firstLine(c.panicked)+"@"+panicSite(c.panicked), "ScanSnapshot panicked: "+firstLine(c.panicked))
		}
	}
	if !terminated {
		return mk("resume-loop-does-not-terminate", fmt.Sprintf("no EOF after %d calls on %d lines", len(calls), nLines))
	}
	for i := 1; i < len(calls); i++ {
		if calls[i].end <= calls[i-1].end && calls[i].err == nil {
			return mk("no-progress", fmt.Sprintf("call %d consumed nothing", i))
		}
	}
	for _, c := range calls {
		if c.snap == nil {
			continue
		}
		if v := renderAll(c.snap, renderHTML, mk); v != nil {
			return v
		}
	}
	return nil
}

func renderAll(s *Snapshot, renderHTML bool, mk func(fp, msg string) *h.Viol) (v *h.Viol) {
	stage := "start"
	defer func() {
		if e := recover(); e != nil {
			st := string(debug.Stack())
			v = mk("panic:"+fmt.Sprint(e)+"@"+panicSite(st)+":"+stage, fmt.Sprintf("%s panicked: %v", stage, e))
		}
	}()
	if len(s.Goroutines) == 0 {
		return mk("empty-snapshot", "a snapshot without goroutines was returned")
	}
	for lv := ExactFlags; lv <= AnyValue; lv++ {
		stage = "Aggregate(" + levelNames[lv] + ")"
		a := s.Aggregate(lv)
		n := 0
		for _, b := range a.Buckets {
			n += len(b.IDs)
		}
		if n != len(s.Goroutines) {
			return mk("aggregate-count", fmt.Sprintf("%s: %d ids for %d goroutines", stage, n, len(s.Goroutines)))
		}
		if renderHTML && (lv == AnyPointer) {
			stage = "Aggregated.ToHTML"
			if err := a.ToHTML(io.Discard, template.HTML("")); err != nil {
				return mk("html-error:aggregated", "Aggregated.ToHTML: "+err.Error())
			}
		}
	}
	stage = "IsRace"
	_ = s.IsRace()
	if renderHTML {
		stage = "Snapshot.ToHTML"
		if err := s.ToHTML(io.Discard, template.HTML("")); err != nil {
			return mk("html-error:snapshot", "Snapshot.ToHTML: "+err.Error())
		}
	}
	return nil
}

var reNumber = regexp.MustCompile(`\d+`)
var numberCorruptions = []string{"", "123456789012345678", "1234567890123456789", "1234567890123456789012345678901234567890", "-1", "0x", "1a", "00"}
var bracketCorruptions = []string{"{", "}", "{{", "}}", "{}", "{{{{{{0x1}}}}}}", "{{{{{{{0x1}}}}}}}", "{0x1", "0x1}", "{0x1}, {", "...", "{...}", "_", "?", "0x?", "{_}", ", ", ",", "{, }"}
var escapeCorruptions = []string{"%", "%2", "%zz", "%00", "%2e", "%2e%2e", "%ff", "+", "%25"}
var addrCorruptions = []string{"0x", "0x00000000000000000", "0xg", "", "0x12345678901234567"}

func TestVerifC03(t *testing.T) {
	r := h.Start("C03")
	defer r.Finish(func(s string) { t.Error(s) })
	r.Set("rule", "(a) every (product state, symbol) trace of the C07 search incl. malformed symbols, under recover; (b) per seed input (one per line kind of both grammars): all single line edits (delete i, duplicate i, swap i j, move i->j, splice line k of another seed at i; thorough: all pairs of delete/duplicate/splice edits), all single token corruptions (every number x 8 replacements, every position of every symbol x 9 escape fragments, every argument list x 19 bracket patterns, every address x 5), all single byte substitutions (256 values x every offset) of three short seeds, all truncations; (c) every returned snapshot: Aggregate x 4, both ToHTML; (d) resume loop terminates within lines+2 calls with progress; (e) allocation and Read-call growth on n, 2n, 4n inputs. non-trivial = the edited input differs from its seed; distinct = input bytes")
	r.Set("assumptions", []string{"coverage-guided mutation (a sampling technique) is replaced by the bounded edit/corruption product", "console rendering and the pp binary are exercised by the C03 part in package internal"})
	if rv := r.ReplayFile(); rv != nil {
		in := rv.Input()
		t.Logf("replay %s: %s\ninput %q", rv.Fingerprint, rv.Summary, trunc(string(in)))
		if v := robustCheck(in, true); v != nil {
			t.Errorf("VIOLATION reproduced: %s: %s", v.Fingerprint, v.Summary)
		} else {
			t.Logf("no violation on this tree")
		}
		return
	}
	part := envPart()
	if part == "bfs" {
		runLineSearch(t, r, "C03", true)
		return
	}
	seeds := c03Seeds()
	r.Set("seeds", len(seeds))
	try := func(kind string, seed int, input []byte, changed bool) {
		key := string(input)
		if !r.Mine(key) || r.Expired() {
			return
		}
		hk := h.Hash(key)
		// HTML is rendered once per distinct input
		v := r.Check(func() *h.Viol {
			vv := robustCheck(input, true)
			if vv != nil {
				vv.Key = fmt.Sprintf("%s seed%d %s", kind, seed, hk)
			}
			return vv
		})
		out := "ok"
		if v != nil {
			out = v.Fingerprint
		}
		r.Record(key, changed, out)
		r.Add("inputs_"+kind, 1)
	}
	for si, seed := range seeds {
		lines := splitLines(seed)
		n := len(lines)
		try("seed", si, seed, false)
		// single line edits
		edit := func(f func() [][]byte) { try("line-edit", si, joinLines(f()), true) }
		for i := 0; i < n; i++ {
			i := i
			edit(func() [][]byte { return append(append([][]byte{}, lines[:i]...), lines[i+1:]...) })
			edit(func() [][]byte {
				return append(append(append([][]byte{}, lines[:i+1]...), lines[i]), lines[i+1:]...)
			})
			for j := 0; j < n; j++ {
				j := j
				if j > i {
					edit(func() [][]byte {
						o := append([][]byte{}, lines...)
						o[i], o[j] = o[j], o[i]
						return o
					})
				}
				if j != i {
					edit(func() [][]byte { // move i -> j
						o := append(append([][]byte{}, lines[:i]...), lines[i+1:]...)
						return append(append(append([][]byte{}, o[:min(j, len(o))]...), lines[i]), o[min(j, len(o)):]...)
					})
				}
			}
			// splice every line of the "other grammar" seed at i
			other := splitLines(seeds[(si+6)%len(seeds)])
			for k := range other {
				k := k
				edit(func() [][]byte {
					return append(append(append([][]byte{}, lines[:i]...), other[k]), lines[i:]...)
				})
			}
		}
		if r.Thorough() && n <= 40 {
			for i := 0; i < n; i++ {
				for j := i + 1; j < n; j++ {
					i, j := i, j
					edit(func() [][]byte { // delete two
						o := append(append([][]byte{}, lines[:i]...), lines[i+1:j]...)
						return append(o, lines[j+1:]...)
					})
					edit(func() [][]byte { // duplicate i, delete j
						o := append(append(append([][]byte{}, lines[:i+1]...), lines[i]), lines[i+1:j]...)
						return append(o, lines[j+1:]...)
					})
				}
			}
		}
		// truncations
		for cut := 0; cut < len(seed); cut++ {
			try("truncation", si, seed[:cut], true)
		}
		// token corruptions: numbers
		for _, loc := range reNumber.FindAllIndex(seed, -1) {
			for _, c := range numberCorruptions {
				try("number", si, append(append(append([]byte{}, seed[:loc[0]]...), c...), seed[loc[1]:]...), true)
			}
		}
		// escapes at every position of every function line's symbol; brackets in every argument list
		off := 0
		for _, l := range lines {
			t0 := bytes.TrimRight(l, "\r\n")
			if open := bytes.IndexByte(t0, '('); open > 0 && bytes.HasSuffix(t0, []byte(")")) {
				for p := 0; p <= open; p++ {
					for _, c := range escapeCorruptions {
						try("escape", si, append(append(append([]byte{}, seed[:off+p]...), c...), seed[off+p:]...), true)
					}
				}
				for _, c := range bracketCorruptions {
					o := append([]byte{}, seed[:off+open+1]...)
					o = append(o, c...)
					o = append(o, seed[off+len(t0)-1:]...)
					try("brackets", si, o, true)
					// also appended to the existing list
					o2 := append([]byte{}, seed[:off+len(t0)-1]...)
					o2 = append(o2, ", "...)
					o2 = append(o2, c...)
					o2 = append(o2, seed[off+len(t0)-1:]...)
					try("brackets", si, o2, true)
				}
			}
			if bytes.HasPrefix(t0, []byte("created by ")) {
				for p := len("created by "); p <= len(t0); p++ {
					for _, c := range escapeCorruptions {
						try("escape", si, append(append(append([]byte{}, seed[:off+p]...), c...), seed[off+p:]...), true)
					}
				}
			}
			if i := bytes.Index(t0, []byte(" at 0x")); i > 0 {
				j := bytes.Index(t0[i+4:], []byte(" "))
				for _, c := range addrCorruptions {
					o := append([]byte{}, seed[:off+i+4]...)
					o = append(o, c...)
					o = append(o, seed[off+i+4+j:]...)
					try("address", si, o, true)
				}
			}
			off += len(l)
		}
	}
	// all single byte substitutions of three short seeds
	short := [][]byte{
		[]byte("goroutine 1 [running]:\nmain.f(0x1, {0x2})\n\t/a/b.go:10 +0x1\ncreated by main.g\n\t/a/c.go:2 +0x3\n\ngoroutine 2 [select]:\n\tgoroutine running on other thread; stack unavailable\n"),
		[]byte("==================\nWARNING: DATA RACE\nRead at 0x00c0 by goroutine 7:\n  main.r()\n      /a/b.go:1 +0x1\n\nGoroutine 7 (running) created at:\n  main.m()\n      /a/b.go:2 +0x2\n==================\n"),
		[]byte("  goroutine 5 [chan send, 2 minutes]:\r\n  a%2eb/c.d(...)\r\n  \t/x.go:1\r\n  ...3 frames elided...\r\n"),
	}
	for si, seed := range short {
		for off := range seed {
			for b := 0; b < 256; b++ {
				if byte(b) == seed[off] {
					continue
				}
				o := append([]byte{}, seed...)
				o[off] = byte(b)
				try("byte-subst", 100+si, o, true)
			}
		}
	}
	if r.Shard == 0 {
		growthCheck(r)
	}
}

func envPart() string { return osGetenv("VERIF_PART") }

type countingReader struct {
	data  []byte
	off   int
	reads int
	chunk int
}

func (c *countingReader) Read(p []byte) (int, error) {
	c.reads++
	if c.off >= len(c.data) {
		return 0, io.EOF
	}
	n := len(p)
	if c.chunk > 0 && n > c.chunk {
		n = c.chunk
	}
	n = copy(p[:n], c.data[c.off:])
	c.off += n
	return n, nil
}

// growthCheck: work must be linear in the input: total allocation and the number
// of Read calls for inputs of n, 2n, 4n bytes; no wall-clock oracle.
func growthCheck(r *h.Run) {
	shapes := map[string]func(n int) []byte{
		"one-long-line": func(n int) []byte { return bytes.Repeat([]byte("x"), n) },
		"one-long-func-line": func(n int) []byte {
			return append(append([]byte("goroutine 1 [running]:\nmain."), bytes.Repeat([]byte("f"), n)...), "()\n\t/a/b.go:1 +0x1\n"...)
		},
		"many-junk-lines": func(n int) []byte { return bytes.Repeat([]byte("some log line here\n"), n/19) },
		"many-goroutines": func(n int) []byte {
			return bytes.Repeat([]byte("goroutine 1 [running]:\nmain.f()\n\t/a/b.go:1 +0x1\n\n"), n/49)
		},
		"many-frames": func(n int) []byte {
			return append([]byte("goroutine 1 [running]:\n"), bytes.Repeat([]byte("main.f(0x1, 0x2)\n\t/a/b.go:1 +0x1\n"), n/34)...)
		},
		"deep-brackets": func(n int) []byte {
			return append(append([]byte("goroutine 1 [running]:\nmain.f("), bytes.Repeat([]byte("{"), n)...), ")\n"...)
		},
	}
	base := 256 * 1024
	for name, mkInput := range shapes {
		var allocs [3]uint64
		var reads [3]int
		for k := 0; k < 3; k++ {
			in := mkInput(base << k)
			cr := &countingReader{data: in, chunk: 4096}
			var ms0, ms1 runtime.MemStats
			runtime.GC()
			runtime.ReadMemStats(&ms0)
			res := scanOnce(cr, &Opts{NameArguments: true})
			runtime.ReadMemStats(&ms1)
			allocs[k] = ms1.TotalAlloc - ms0.TotalAlloc
			reads[k] = cr.reads
			if res.panicked != "" {
				r.Report(&h.Viol{Fingerprint: "C03/panic:" + firstLine(res.panicked) + "@growth:" + name, Summary: "panic on large input " + name + ": " + firstLine(res.panicked), Key: "growth " + name, Reproduced: 5})
			}
		}
		// linear: quadrupling the input may at most multiply the cost by ~4 (+ slack 2x + constant)
		if allocs[2] > 8*allocs[0]+64<<20 {
			r.Report(&h.Viol{Fingerprint: "C03/superlinear-alloc:" + name, Summary: fmt.Sprintf("%s: allocation %d, %d, %d bytes for n, 2n, 4n (n=%d)", name, allocs[0], allocs[1], allocs[2], base), Key: "growth " + name, Reproduced: 5})
		}
		if reads[2] > 8*reads[0]+1000 {
			r.Report(&h.Viol{Fingerprint: "C03/superlinear-reads:" + name, Summary: fmt.Sprintf("%s: %d, %d, %d Read calls for n, 2n, 4n", name, reads[0], reads[1], reads[2]), Key: "growth " + name, Reproduced: 5})
		}
		r.Record("growth "+name, true, fmt.Sprint(reads[2] > 0))
		r.Set("growth_"+strings.ReplaceAll(name, "-", "_"), fmt.Sprintf("alloc %d/%d/%d reads %d/%d/%d", allocs[0], allocs[1], allocs[2], reads[0], reads[1], reads[2]))
	}
}
