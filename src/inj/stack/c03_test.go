//go:build verif

package stack

// C03: total robustness. (a) the product search of C07 viewed for panics and
// termination; (b) bounded-exhaustive grammar-aware edits of seed inputs of both
// grammars: all single (thorough: double) line edits, all single token
// corruptions from finite alphabets, all single byte substitutions of short
// seeds, all truncations; (c) every snapshot obtained is aggregated at 4 levels
// and rendered as HTML both ways; (d) the resume loop terminates within lines+2
// calls; (e) work grows linearly with the input.

import (
	"bytes"
	"fmt"
	"html/template"
	"io"
	"os"
	"path/filepath"
	"runtime"
	"runtime/debug"
	"strings"
	"testing"
	"time"

	"github.com/maruel/panicparse/v2/internal/verifx/gen"
	"github.com/maruel/panicparse/v2/internal/verifx/h"
)

func splitLines(b []byte) [][]byte {
	var out [][]byte
	for len(b) > 0 {
		i := bytes.IndexByte(b, '\n')
		if i < 0 {
			out = append(out, b)
			break
		}
		out = append(out, b[:i+1])
		b = b[i+1:]
	}
	return out
}

func joinLines(l [][]byte) []byte { return bytes.Join(l, nil) }

var htmlSeen = map[string]bool{}

// robustCheck is the oracle of C03 for one input.
func robustCheck(input []byte, renderHTML bool) *h.Viol {
	return robustCheckOpts(input, renderHTML, plainOpts)
}

// c03Hung is set once an input made the library spin: the goroutine cannot be
// stopped, so nothing more is run in this shard and every later input reports the
// same condition at once (the shard then ends quickly).
var c03Hung string

// c03Watchdog bounds the work on one input (scan loop, 4 aggregations, 2 renderings of
// at most a few hundred kilobytes: milliseconds). Only a clock can see a loop that
// neither reads nor writes.
const c03Watchdog = 90 * time.Second

func robustCheckOpts(input []byte, renderHTML bool, mkOpts func() *Opts) *h.Viol {
	hung := func(msg string) *h.Viol {
		v := &h.Viol{Fingerprint: "C03/no-termination", Summary: msg, Kind: "input"}
		v.SetInput(input)
		return v
	}
	if c03Hung != "" {
		return hung("not run: " + c03Hung)
	}
	ch := make(chan *h.Viol, 1)
	go func() { ch <- robustCheckInner(input, renderHTML, mkOpts) }()
	select {
	case v := <-ch:
		return v
	case <-time.After(c03Watchdog):
		c03Hung = fmt.Sprintf("an earlier input (%d bytes, %s) was still being processed after %v", len(input), h.Hash(string(input)), c03Watchdog)
		return hung(fmt.Sprintf("scanning, aggregating and rendering a %d byte input did not finish within %v", len(input), c03Watchdog))
	}
}

func robustCheckInner(input []byte, renderHTML bool, mkOpts func() *Opts) *h.Viol {
	nLines := bytes.Count(input, []byte("\n")) + 1
	mk := func(fp, msg string) *h.Viol {
		v := &h.Viol{Fingerprint: "C03/" + fp, Summary: msg, Kind: "input"}
		v.SetInput(input)
		return v
	}
	calls, terminated := resumeLoop(input, mkOpts(), nLines+2)
	for _, c := range calls {
		if c.panicked != "" {
			return mk("panic:"+firstLine(c.panicked)+"@"+panicSite(c.panicked), "ScanSnapshot panicked: "+firstLine(c.panicked))
		}
	}
	if !terminated {
		return mk("resume-loop-does-not-terminate", fmt.Sprintf("no EOF after %d calls on %d lines", len(calls), nLines))
	}
	for i := 1; i < len(calls); i++ {
		if calls[i].end <= calls[i-1].end && calls[i].err == nil {
			return mk("no-progress", fmt.Sprintf("call %d consumed nothing", i))
		}
	}
	for _, c := range calls {
		if c.snap == nil {
			continue
		}
		if v := renderAll(c.snap, renderHTML, mk); v != nil {
			return v
		}
	}
	return nil
}

func renderAll(s *Snapshot, renderHTML bool, mk func(fp, msg string) *h.Viol) (v *h.Viol) {
	stage := "start"
	defer func() {
		if e := recover(); e != nil {
			st := string(debug.Stack())
			v = mk("panic:"+fmt.Sprint(e)+"@"+panicSite(st)+":"+stage, fmt.Sprintf("%s panicked: %v", stage, e))
		}
	}()
	if len(s.Goroutines) == 0 {
		return mk("empty-snapshot", "a snapshot without goroutines was returned")
	}
	for lv := ExactFlags; lv <= AnyValue; lv++ {
		stage = "Aggregate(" + levelNames[lv] + ")"
		a := s.Aggregate(lv)
		n := 0
		for _, b := range a.Buckets {
			n += len(b.IDs)
		}
		if n != len(s.Goroutines) {
			return mk("aggregate-count", fmt.Sprintf("%s: %d ids for %d goroutines", stage, n, len(s.Goroutines)))
		}
		if renderHTML && (lv == AnyPointer) {
			stage = "Aggregated.ToHTML"
			if err := a.ToHTML(io.Discard, template.HTML("")); err != nil {
				return mk("html-error:aggregated", "Aggregated.ToHTML: "+err.Error())
			}
		}
	}
	stage = "IsRace"
	_ = s.IsRace()
	if renderHTML {
		stage = "Snapshot.ToHTML"
		if err := s.ToHTML(io.Discard, template.HTML("")); err != nil {
			return mk("html-error:snapshot", "Snapshot.ToHTML: "+err.Error())
		}
	}
	return nil
}

func TestVerifC03(t *testing.T) {
	r := h.Start("C03")
	defer r.Finish(func(s string) { t.Error(s) })
	r.Set("rule", "(a) every (product state, symbol) trace of the C07 search incl. malformed symbols, under recover; (b) per seed input (one per line kind of both grammars): all single line edits (delete i, duplicate i, swap i j, move i->j, splice line k of another seed at i; thorough: all pairs of delete/duplicate/splice edits), all single token corruptions (every number x 8 replacements, every position of every symbol x 9 escape fragments, every argument list x 19 bracket patterns, every address x 5), all single byte substitutions (256 values x every offset) of three short seeds, all truncations; (c) every returned snapshot: Aggregate x 4, both ToHTML; (d) resume loop terminates within lines+2 calls with progress; (e) allocation and Read-call growth on n, 2n, 4n inputs; (f) the same edit families over two dumps whose frames point at real sources (scratch GOPATH, scratch module, local Go root) scanned with path guessing and source analysis on, plus every ordered pair of frame-class sequences of length 1..3 over {main, other package, standard library} as two goroutines of one dump, plus every import path of 1..3 elements over 15 elements the link/location helpers look for (vendor directories and look-alikes, hosts, versions) under the GOPATH's src and pkg/mod trees. non-trivial = the edited input differs from its seed; distinct = input bytes")
	r.Set("assumptions", []string{"coverage-guided mutation (a sampling technique) is replaced by the bounded edit/corruption product", "console rendering and the pp binary are exercised by the C03 part in package internal"})
	if rv := r.ReplayFile(); rv != nil {
		in := rv.Input()
		t.Logf("replay %s: %s\ninput %q", rv.Fingerprint, rv.Summary, trunc(string(in)))
		if v := robustCheck(in, true); v != nil {
			t.Errorf("VIOLATION reproduced: %s: %s", v.Fingerprint, v.Summary)
		} else {
			t.Logf("no violation on this tree")
		}
		return
	}
	part := envPart()
	if part == "bfs" {
		runLineSearch(t, r, "C03", true)
		return
	}
	seeds := gen.RobustSeeds()
	r.Set("seeds", len(seeds))
	try := func(kind string, seed int, input []byte, changed bool) {
		key := string(input)
		if !r.Mine(key) || r.Expired() {
			return
		}
		hk := h.Hash(key)
		// HTML is rendered once per distinct input
		v := r.Check(func() *h.Viol {
			vv := robustCheck(input, true)
			if vv != nil {
				vv.Key = fmt.Sprintf("%s seed%d %s", kind, seed, hk)
			}
			return vv
		})
		out := "ok"
		if v != nil {
			out = v.Fingerprint
		}
		r.Record(key, changed, out)
		r.Add("inputs_"+kind, 1)
	}
	_ = seeds
	gen.RobustInputs(r.Thorough(), try)
	// path shapes under path guessing: tails that exist under the local Go root / GOPATH
	// behind every kind of prefix, scanned with GuessPaths on
	if r.Shard == 0 {
		goroot := runtime.GOROOT()
		for _, rel := range []string{"fmt/print.go", "net/http/server.go", "runtime/proc.go"} {
			for _, pre := range []string{"", "/", "x", "/x", "/x/src", "/x/srcs", "/src", "src", "/a/b/c/d", "C:", "C:/go/src", "//", "/pkg/mod", "/x/pkg/mod", "/x/pkg", "/s", "/sr", "/srcx", "\\x\\src"} {
				for _, mid := range []string{"/", "/src/", "/pkg/mod/", "//"} {
					pth := pre + mid + rel
					in := []byte("goroutine 1 [running]:\nfmt.Println(0x1)\n\t" + pth + ":10 +0x1\nmain.main()\n\t/x/y/main.go:3 +0x2\n")
					key := "path-shape " + pth
					v := r.Check(func() *h.Viol {
						for _, opts := range []*Opts{{GuessPaths: true, LocalGOROOT: goroot, LocalGOPATHs: []string{goroot}}, {GuessPaths: true, AnalyzeSources: true, NameArguments: true, LocalGOROOT: goroot, LocalGOPATHs: []string{goroot + "/src", "/"}}} {
							res := scanOnce(bytes.NewReader(in), opts)
							if res.panicked != "" {
								vv := &h.Viol{Fingerprint: "C03/panic:" + firstLine(res.panicked) + "@" + panicSite(res.panicked), Summary: "ScanSnapshot with path guessing panicked on source path " + pth + ": " + firstLine(res.panicked), Key: key, Kind: "input"}
								vv.SetInput(in)
								return vv
							}
						}
						return nil
					})
					o := "ok"
					if v != nil {
						o = v.Fingerprint
					}
					r.Record(key, true, o)
					r.Add("inputs_path-shape", 1)
				}
			}
		}
	}
	// the same edit families over dumps whose frames point at real sources (a scratch
	// GOPATH, a scratch module, the local Go root), scanned with path guessing and
	// source analysis on: every number (line numbers included), argument list and line
	// of a dump that the analysis stage really works on
	if root, err := os.MkdirTemp(os.Getenv("VERIF_SCRATCH"), "c03src"); err == nil {
		defer os.RemoveAll(root)
		if rp, err := filepath.EvalSymlinks(root); err == nil {
			root = rp
		}
		seeds, full := c03SourceSeeds(root)
		tryFull := func(kind string, seed int, input []byte, changed bool) {
			// the scratch directory name differs between shard processes: not part of the key
			key := kind + "\x00" + strings.ReplaceAll(string(input), root, "$ROOT")
			if !r.Mine(key) || r.Expired() {
				return
			}
			hk := h.Hash(key)
			v := r.Check(func() *h.Viol {
				vv := robustCheckOpts(input, true, full)
				if vv != nil {
					vv.Fingerprint = strings.Replace(vv.Fingerprint, "C03/", "C03/analysed/", 1)
					vv.Key = fmt.Sprintf("%s seed%d %s", kind, seed, hk)
				}
				return vv
			})
			out := "ok"
			if v != nil {
				out = v.Fingerprint
			}
			r.Record(key, changed, out)
			r.Add("inputs_"+kind, 1)
		}
		gen.SeedEdits(seeds, r.Thorough(), "src-", tryFull)
		// stack pairs: two goroutines (after a first one) whose stacks are every ordered
		// pair of frame-class sequences of length 1..3 over {main, other package, standard
		// library}; equal prefixes are equal frames, so prefixes, ties and every class
		// count difference occur
		classes := []struct{ fn, file string }{
			{"main.f%d", root + "/run/main.go"},
			{"example.com/p.F%d", root + "/gp/src/example.com/p/p.go"},
			{"fmt.F%d", runtime.GOROOT() + "/src/fmt/print.go"},
		}
		var seqs [][]int
		var rec func(cur []int)
		rec = func(cur []int) {
			if len(cur) > 0 {
				seqs = append(seqs, append([]int{}, cur...))
			}
			if len(cur) == 3 {
				return
			}
			for c := range classes {
				rec(append(cur, c))
			}
		}
		rec(nil)
		stackText := func(id int, state string, seq []int) string {
			var b strings.Builder
			fmt.Fprintf(&b, "goroutine %d [%s]:\n", id, state)
			for d, c := range seq {
				fmt.Fprintf(&b, classes[c].fn+"(0x%d)\n\t%s:%d +0x1\n", d, d+1, classes[c].file, 10+d)
			}
			b.WriteString("\n")
			return b.String()
		}
		for i, a := range seqs {
			for j, b := range seqs {
				in := []byte(stackText(1, "running", []int{0}) + stackText(2, "select", a) + stackText(3, "select", b))
				tryFull("stack-pair", 2000+i*len(seqs)+j, in, true)
			}
		}
		// import-path shapes: every path of 1..3 elements over an alphabet of elements the
		// link and location helpers look for (vendor directories and look-alikes, hosts,
		// versions with and without tag, empty elements), as a package under the GOPATH's
		// src and pkg/mod trees, next to a frame that makes the root detectable; scanned
		// with path guessing on and rendered to HTML
		elems := []string{"vendor", "govendor", "vendorx", "a", "github.com", "golang.org", "x", "gopkg.in", "yaml.v2", "mod@v1.2.3", "mod@", "@", "mod@release-1", "v2", ""}
		var paths []string
		var recp func(cur []string)
		recp = func(cur []string) {
			if len(cur) > 0 {
				paths = append(paths, strings.Join(cur, "/"))
			}
			if len(cur) == 3 {
				return
			}
			for _, e := range elems {
				recp(append(append([]string{}, cur...), e))
			}
		}
		recp(nil)
		for pi, pth := range paths {
			for ti, tree := range []string{"/gp/src/", "/gp/pkg/mod/"} {
				in := []byte(fmt.Sprintf("goroutine 1 [running]:\nexample.com/p.Work(0x1, {0xc000012340, 0x3}, 0x5)\n\t%s/gp/src/example.com/p/p.go:4 +0x1\n%s.Exported(0x1)\n\t%s%s%s/f.go:10 +0x2\ncreated by %s.start in goroutine 5\n\t%s%s%s/f.go:20 +0x3\n", root, gen.PathToPrefix(pth), root, tree, pth, gen.PathToPrefix(pth), root, tree, pth))
				tryFull("import-path-shape", 10000+pi*2+ti, in, true)
			}
		}
	}
	if r.Shard == 0 {
		growthCheck(r)
	}
}

// c03SourceSeeds writes a scratch source tree and returns dumps whose frames point
// into it (and into the local Go root), plus the options to scan them with.
func c03SourceSeeds(root string) ([][]byte, func() *Opts) {
	write := func(rel, content string) {
		p := filepath.Join(root, rel)
		_ = os.MkdirAll(filepath.Dir(p), 0o755)
		_ = os.WriteFile(p, []byte(content), 0o644)
	}
	write("gp/src/example.com/p/p.go", "package p\n\nfunc Work(n int, s string, f float32) {\n\tpanic(n)\n}\n\nfunc Start() {\n\tgo Work(1, \"a\", 2)\n}\n\nfunc F0(a int) {}\nfunc F1(a int) {}\nfunc F2(a int) {}\n")
	write("mod/go.mod", "module example.com/m\n")
	write("mod/m.go", "package m\n\ntype T struct{ a int }\n\nfunc (t *T) Run(k uint8, xs []int) {\n\tpanic(k)\n}\n")
	write("run/main.go", "package main\n\nfunc main() {\n\tf0(1)\n}\n\nfunc f0(a int) {}\nfunc f1(a int) {}\nfunc f2(a int) {}\n")
	goroot := runtime.GOROOT()
	printlnLine := 10
	if b, err := os.ReadFile(goroot + "/src/fmt/print.go"); err == nil {
		for i, l := range strings.Split(string(b), "\n") {
			if strings.HasPrefix(l, "func Println(") {
				printlnLine = i + 2
			}
		}
	}
	R := root
	seed1 := fmt.Sprintf("panic: boom\n\ngoroutine 1 [running]:\nexample.com/p.Work(0x1, {0xc000012340, 0x3}, 0x7fffffff)\n\t%s/gp/src/example.com/p/p.go:4 +0x1\nexample.com/m.(*T).Run(0xc000045678, 0x2, {0xc0000789a0, 0x2, 0x4})\n\t%s/mod/m.go:6 +0x2\nfmt.Println({0xc000012340, 0x1, 0x1})\n\t%s/src/fmt/print.go:%d +0x3\nmain.main()\n\t%s/run/main.go:4 +0x4\n\ngoroutine 7 [select, 3 minutes]:\nexample.com/p.Work(0x2, {0xc000012340, 0x3}, 0x5)\n\t%s/gp/src/example.com/p/p.go:4 +0x1\ncreated by example.com/p.Start in goroutine 1\n\t%s/gp/src/example.com/p/p.go:8 +0x5\n\ngoroutine 8 [select, 5 minutes]:\nexample.com/p.Work(0x3, {0xc000012340, 0x3}, 0x5)\n\t%s/gp/src/example.com/p/p.go:4 +0x1\ncreated by example.com/p.Start in goroutine 1\n\t%s/gp/src/example.com/p/p.go:8 +0x5\nexit status 2\n", R, R, goroot, printlnLine, R, R, R, R, R)
	seed2 := fmt.Sprintf("==================\nWARNING: DATA RACE\nWrite at 0x00c000014100 by goroutine 7:\n  example.com/p.Work(0x1, {0xc000012340, 0x3}, 0x5)\n      %s/gp/src/example.com/p/p.go:4 +0x44\n\nPrevious read at 0x00c000014100 by goroutine 6:\n  example.com/m.(*T).Run(0xc000045678, 0x2, {0xc0000789a0, 0x2, 0x4})\n      %s/mod/m.go:6 +0x30\n\nGoroutine 7 (running) created at:\n  example.com/p.Start()\n      %s/gp/src/example.com/p/p.go:8 +0x5\n\nGoroutine 6 (finished) created at:\n  main.main()\n      %s/run/main.go:4 +0x4\n==================\n", R, R, R, R)
	full := func() *Opts {
		return &Opts{GuessPaths: true, AnalyzeSources: true, NameArguments: true, LocalGOROOT: goroot, LocalGOPATHs: []string{R + "/gp"}}
	}
	return [][]byte{[]byte(seed1), []byte(seed2)}, full
}

func envPart() string { return osGetenv("VERIF_PART") }

type countingReader struct {
	data  []byte
	off   int
	reads int
	chunk int
}

func (c *countingReader) Read(p []byte) (int, error) {
	c.reads++
	if c.off >= len(c.data) {
		return 0, io.EOF
	}
	n := len(p)
	if c.chunk > 0 && n > c.chunk {
		n = c.chunk
	}
	n = copy(p[:n], c.data[c.off:])
	c.off += n
	return n, nil
}

// growthCheck: work must be linear in the input: total allocation and the number
// of Read calls for inputs of n, 2n, 4n bytes; no wall-clock oracle.
func growthCheck(r *h.Run) {
	shapes := map[string]func(n int) []byte{
		"one-long-line": func(n int) []byte { return bytes.Repeat([]byte("x"), n) },
		"one-long-func-line": func(n int) []byte {
			return append(append([]byte("goroutine 1 [running]:\nmain."), bytes.Repeat([]byte("f"), n)...), "()\n\t/a/b.go:1 +0x1\n"...)
		},
		"many-junk-lines": func(n int) []byte { return bytes.Repeat([]byte("some log line here\n"), n/19) },
		"many-goroutines": func(n int) []byte {
			return bytes.Repeat([]byte("goroutine 1 [running]:\nmain.f()\n\t/a/b.go:1 +0x1\n\n"), n/49)
		},
		"many-frames": func(n int) []byte {
			return append([]byte("goroutine 1 [running]:\n"), bytes.Repeat([]byte("main.f(0x1, 0x2)\n\t/a/b.go:1 +0x1\n"), n/34)...)
		},
		"deep-brackets": func(n int) []byte {
			return append(append([]byte("goroutine 1 [running]:\nmain.f("), bytes.Repeat([]byte("{"), n)...), ")\n"...)
		},
	}
	base := 256 * 1024
	for name, mkInput := range shapes {
		var allocs [3]uint64
		var reads [3]int
		for k := 0; k < 3; k++ {
			in := mkInput(base << k)
			cr := &countingReader{data: in, chunk: 4096}
			var ms0, ms1 runtime.MemStats
			runtime.GC()
			runtime.ReadMemStats(&ms0)
			res := scanOnce(cr, &Opts{NameArguments: true})
			runtime.ReadMemStats(&ms1)
			allocs[k] = ms1.TotalAlloc - ms0.TotalAlloc
			reads[k] = cr.reads
			if res.panicked != "" {
				r.Report(&h.Viol{Fingerprint: "C03/panic:" + firstLine(res.panicked) + "@growth:" + name, Summary: "panic on large input " + name + ": " + firstLine(res.panicked), Key: "growth " + name, Reproduced: 5})
			}
		}
		// linear: quadrupling the input may at most multiply the cost by ~4 (+ slack 2x + constant)
		if allocs[2] > 8*allocs[0]+64<<20 {
			r.Report(&h.Viol{Fingerprint: "C03/superlinear-alloc:" + name, Summary: fmt.Sprintf("%s: allocation %d, %d, %d bytes for n, 2n, 4n (n=%d)", name, allocs[0], allocs[1], allocs[2], base), Key: "growth " + name, Reproduced: 5})
		}
		if reads[2] > 8*reads[0]+1000 {
			r.Report(&h.Viol{Fingerprint: "C03/superlinear-reads:" + name, Summary: fmt.Sprintf("%s: %d, %d, %d Read calls for n, 2n, 4n", name, reads[0], reads[1], reads[2]), Key: "growth " + name, Reproduced: 5})
		}
		r.Record("growth "+name, true, fmt.Sprint(reads[2] > 0))
		r.Set("growth_"+strings.ReplaceAll(name, "-", "_"), fmt.Sprintf("alloc %d/%d/%d reads %d/%d/%d", allocs[0], allocs[1], allocs[2], reads[0], reads[1], reads[2]))
	}
}
