//go:build verif

package stack

// C03: total robustness. (a) the product search of C07 viewed for panics and
// termination; (b) bounded-exhaustive grammar-aware edits of seed inputs of both
// grammars: all single (thorough: double) line edits, all single token
// corruptions from finite alphabets, all single byte substitutions of short
// seeds, all truncations; (c) every snapshot obtained is aggregated at 4 levels
// and rendered as HTML both ways; (d) the resume loop terminates within lines+2
// calls; (e) work grows linearly with the input.

import (
	"bytes"
	"fmt"
	"html/template"
	"io"
	"runtime"
	"runtime/debug"
	"strings"
	"testing"

	"github.com/maruel/panicparse/v2/internal/verifx/gen"
	"github.com/maruel/panicparse/v2/internal/verifx/h"
)

func splitLines(b []byte) [][]byte {
	var out [][]byte
	for len(b) > 0 {
		i := bytes.IndexByte(b, '\n')
		if i < 0 {
			out = append(out, b)
			break
		}
		out = append(out, b[:i+1])
		b = b[i+1:]
	}
	return out
}

func joinLines(l [][]byte) []byte { return bytes.Join(l, nil) }

var htmlSeen = map[string]bool{}

// robustCheck is the oracle of C03 for one input.
func robustCheck(input []byte, renderHTML bool) *h.Viol {
	nLines := bytes.Count(input, []byte("\n")) + 1
	mk := func(fp, msg string) *h.Viol {
		v := &h.Viol{Fingerprint: "C03/" + fp, Summary: msg, Kind: "input"}
		v.SetInput(input)
		return v
	}
	calls, terminated := resumeLoop(input, plainOpts(), nLines+2)
	for _, c := range calls {
		if c.panicked != "" {
			return mk("panic:"+firstLine(c.panicked)+"@"+panicSite(c.panicked), "ScanSnapshot panicked: "+firstLine(c.panicked))
		}
	}
	if !terminated {
		return mk("resume-loop-does-not-terminate", fmt.Sprintf("no EOF after %d calls on %d lines", len(calls), nLines))
	}
	for i := 1; i < len(calls); i++ {
		if calls[i].end <= calls[i-1].end && calls[i].err == nil {
			return mk("no-progress", fmt.Sprintf("call %d consumed nothing", i))
		}
	}
	for _, c := range calls {
		if c.snap == nil {
			continue
		}
		if v := renderAll(c.snap, renderHTML, mk); v != nil {
			return v
		}
	}
	return nil
}

func renderAll(s *Snapshot, renderHTML bool, mk func(fp, msg string) *h.Viol) (v *h.Viol) {
	stage := "start"
	defer func() {
		if e := recover(); e != nil {
			st := string(debug.Stack())
			v = mk("panic:"+fmt.Sprint(e)+"@"+panicSite(st)+":"+stage, fmt.Sprintf("%s panicked: %v", stage, e))
		}
	}()
	if len(s.Goroutines) == 0 {
		return mk("empty-snapshot", "a snapshot without goroutines was returned")
	}
	for lv := ExactFlags; lv <= AnyValue; lv++ {
		stage = "Aggregate(" + levelNames[lv] + ")"
		a := s.Aggregate(lv)
		n := 0
		for _, b := range a.Buckets {
			n += len(b.IDs)
		}
		if n != len(s.Goroutines) {
			return mk("aggregate-count", fmt.Sprintf("%s: %d ids for %d goroutines", stage, n, len(s.Goroutines)))
		}
		if renderHTML && (lv == AnyPointer) {
			stage = "Aggregated.ToHTML"
			if err := a.ToHTML(io.Discard, template.HTML("")); err != nil {
				return mk("html-error:aggregated", "Aggregated.ToHTML: "+err.Error())
			}
		}
	}
	stage = "IsRace"
	_ = s.IsRace()
	if renderHTML {
		stage = "Snapshot.ToHTML"
		if err := s.ToHTML(io.Discard, template.HTML("")); err != nil {
			return mk("html-error:snapshot", "Snapshot.ToHTML: "+err.Error())
		}
	}
	return nil
}

func TestVerifC03(t *testing.T) {
	r := h.Start("C03")
	defer r.Finish(func(s string) { t.Error(s) })
	r.Set("rule", "(a) every (product state, symbol) trace of the C07 search incl. malformed symbols, under recover; (b) per seed input (one per line kind of both grammars): all single line edits (delete i, duplicate i, swap i j, move i->j, splice line k of another seed at i; thorough: all pairs of delete/duplicate/splice edits), all single token corruptions (every number x 8 replacements, every position of every symbol x 9 escape fragments, every argument list x 19 bracket patterns, every address x 5), all single byte substitutions (256 values x every offset) of three short seeds, all truncations; (c) every returned snapshot: Aggregate x 4, both ToHTML; (d) resume loop terminates within lines+2 calls with progress; (e) allocation and Read-call growth on n, 2n, 4n inputs. non-trivial = the edited input differs from its seed; distinct = input bytes")
	r.Set("assumptions", []string{"coverage-guided mutation (a sampling technique) is replaced by the bounded edit/corruption product", "console rendering and the pp binary are exercised by the C03 part in package internal"})
	if rv := r.ReplayFile(); rv != nil {
		in := rv.Input()
		t.Logf("replay %s: %s\ninput %q", rv.Fingerprint, rv.Summary, trunc(string(in)))
		if v := robustCheck(in, true); v != nil {
			t.Errorf("VIOLATION reproduced: %s: %s", v.Fingerprint, v.Summary)
		} else {
			t.Logf("no violation on this tree")
		}
		return
	}
	part := envPart()
	if part == "bfs" {
		runLineSearch(t, r, "C03", true)
		return
	}
	seeds := gen.RobustSeeds()
	r.Set("seeds", len(seeds))
	try := func(kind string, seed int, input []byte, changed bool) {
		key := string(input)
		if !r.Mine(key) || r.Expired() {
			return
		}
		hk := h.Hash(key)
		// HTML is rendered once per distinct input
		v := r.Check(func() *h.Viol {
			vv := robustCheck(input, true)
			if vv != nil {
				vv.Key = fmt.Sprintf("%s seed%d %s", kind, seed, hk)
			}
			return vv
		})
		out := "ok"
		if v != nil {
			out = v.Fingerprint
		}
		r.Record(key, changed, out)
		r.Add("inputs_"+kind, 1)
	}
	_ = seeds
	gen.RobustInputs(r.Thorough(), try)
	// path shapes under path guessing: tails that exist under the local Go root / GOPATH
	// behind every kind of prefix, scanned with GuessPaths on
	if r.Shard == 0 {
		goroot := runtime.GOROOT()
		for _, rel := range []string{"fmt/print.go", "net/http/server.go", "runtime/proc.go"} {
			for _, pre := range []string{"", "/", "x", "/x", "/x/src", "/x/srcs", "/src", "src", "/a/b/c/d", "C:", "C:/go/src", "//", "/pkg/mod", "/x/pkg/mod", "/x/pkg", "/s", "/sr", "/srcx", "\\x\\src"} {
				for _, mid := range []string{"/", "/src/", "/pkg/mod/", "//"} {
					pth := pre + mid + rel
					in := []byte("goroutine 1 [running]:\nfmt.Println(0x1)\n\t" + pth + ":10 +0x1\nmain.main()\n\t/x/y/main.go:3 +0x2\n")
					key := "path-shape " + pth
					v := r.Check(func() *h.Viol {
						for _, opts := range []*Opts{{GuessPaths: true, LocalGOROOT: goroot, LocalGOPATHs: []string{goroot}}, {GuessPaths: true, AnalyzeSources: true, NameArguments: true, LocalGOROOT: goroot, LocalGOPATHs: []string{goroot + "/src", "/"}}} {
							res := scanOnce(bytes.NewReader(in), opts)
							if res.panicked != "" {
								vv := &h.Viol{Fingerprint: "C03/panic:" + firstLine(res.panicked) + "@" + panicSite(res.panicked), Summary: "ScanSnapshot with path guessing panicked on source path " + pth + ": " + firstLine(res.panicked), Key: key, Kind: "input"}
								vv.SetInput(in)
								return vv
							}
						}
						return nil
					})
					o := "ok"
					if v != nil {
						o = v.Fingerprint
					}
					r.Record(key, true, o)
					r.Add("inputs_path-shape", 1)
				}
			}
		}
	}
	if r.Shard == 0 {
		growthCheck(r)
	}
}

func envPart() string { return osGetenv("VERIF_PART") }

type countingReader struct {
	data  []byte
	off   int
	reads int
	chunk int
}

func (c *countingReader) Read(p []byte) (int, error) {
	c.reads++
	if c.off >= len(c.data) {
		return 0, io.EOF
	}
	n := len(p)
	if c.chunk > 0 && n > c.chunk {
		n = c.chunk
	}
	n = copy(p[:n], c.data[c.off:])
	c.off += n
	return n, nil
}

// growthCheck: work must be linear in the input: total allocation and the number
// of Read calls for inputs of n, 2n, 4n bytes; no wall-clock oracle.
func growthCheck(r *h.Run) {
	shapes := map[string]func(n int) []byte{
		"one-long-line": func(n int) []byte { return bytes.Repeat([]byte("x"), n) },
		"one-long-func-line": func(n int) []byte {
			return append(append([]byte("goroutine 1 [running]:\nmain."), bytes.Repeat([]byte("f"), n)...), "()\n\t/a/b.go:1 +0x1\n"...)
		},
		"many-junk-lines": func(n int) []byte { return bytes.Repeat([]byte("some log line here\n"), n/19) },
		"many-goroutines": func(n int) []byte {
			return bytes.Repeat([]byte("goroutine 1 [running]:\nmain.f()\n\t/a/b.go:1 +0x1\n\n"), n/49)
		},
		"many-frames": func(n int) []byte {
			return append([]byte("goroutine 1 [running]:\n"), bytes.Repeat([]byte("main.f(0x1, 0x2)\n\t/a/b.go:1 +0x1\n"), n/34)...)
		},
		"deep-brackets": func(n int) []byte {
			return append(append([]byte("goroutine 1 [running]:\nmain.f("), bytes.Repeat([]byte("{"), n)...), ")\n"...)
		},
	}
	base := 256 * 1024
	for name, mkInput := range shapes {
		var allocs [3]uint64
		var reads [3]int
		for k := 0; k < 3; k++ {
			in := mkInput(base << k)
			cr := &countingReader{data: in, chunk: 4096}
			var ms0, ms1 runtime.MemStats
			runtime.GC()
			runtime.ReadMemStats(&ms0)
			res := scanOnce(cr, &Opts{NameArguments: true})
			runtime.ReadMemStats(&ms1)
			allocs[k] = ms1.TotalAlloc - ms0.TotalAlloc
			reads[k] = cr.reads
			if res.panicked != "" {
				r.Report(&h.Viol{Fingerprint: "C03/panic:" + firstLine(res.panicked) + "@growth:" + name, Summary: "panic on large input " + name + ": " + firstLine(res.panicked), Key: "growth " + name, Reproduced: 5})
			}
		}
		// linear: quadrupling the input may at most multiply the cost by ~4 (+ slack 2x + constant)
		if allocs[2] > 8*allocs[0]+64<<20 {
			r.Report(&h.Viol{Fingerprint: "C03/superlinear-alloc:" + name, Summary: fmt.Sprintf("%s: allocation %d, %d, %d bytes for n, 2n, 4n (n=%d)", name, allocs[0], allocs[1], allocs[2], base), Key: "growth " + name, Reproduced: 5})
		}
		if reads[2] > 8*reads[0]+1000 {
			r.Report(&h.Viol{Fingerprint: "C03/superlinear-reads:" + name, Summary: fmt.Sprintf("%s: %d, %d, %d Read calls for n, 2n, 4n", name, reads[0], reads[1], reads[2]), Key: "growth " + name, Reproduced: 5})
		}
		r.Record("growth "+name, true, fmt.Sprint(reads[2] > 0))
		r.Set("growth_"+strings.ReplaceAll(name, "-", "_"), fmt.Sprintf("alloc %d/%d/%d reads %d/%d/%d", allocs[0], allocs[1], allocs[2], reads[0], reads[1], reads[2]))
	}
}
