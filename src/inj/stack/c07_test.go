//go:build verif

package stack

import (
	"fmt"
	"strings"
	"testing"

	"github.com/maruel/panicparse/v2/internal/verifx/gen"
	"github.com/maruel/panicparse/v2/internal/verifx/h"
	"github.com/maruel/panicparse/v2/internal/verifx/rline"
)

var trailer = []rline.Line{{Text: "after1", Kind: rline.OTHER}, {Text: "after2", Kind: rline.OTHER}}

// runLineSearch is the deciding run of C02/C07 (and part of C03/C08): the product
// BFS under LF and CRLF, every transition validated through the public API.
func runLineSearch(t *testing.T, r *h.Run, view string, stepLevel bool) {
	caps := bfsCaps{G: 2, F: 2, K: 2}
	if r.Thorough() {
		caps = bfsCaps{G: 3, F: 2, K: 3}
	}
	r.Set("implementation_side", implScannerKind)
	r.Set("caps", fmt.Sprintf("G=%d goroutines, F=%d frames per stack, K=%d race creation sections", caps.G, caps.F, caps.K))
	frontierEmpty := true
	for _, crlf := range []bool{false, true} {
		alpha := alphabet(crlf)
		eol := "LF"
		if crlf {
			eol = "CRLF"
		}
		r.Set("alphabet_size", len(alpha))
		hooks := bfsHooks{onTransition: func(path []int, si int, m *rline.Model, before rline.St, v *stepVerdict, skel string) {
			names := append(pathNames(alpha, path), alpha[si].name)
			key := eol + ":" + strings.Join(names, " ")
			if stepLevel && r.Shard == 0 {
				if v != nil {
					vv := &h.Viol{Fingerprint: view + "/step/" + v.fp, Summary: v.msg + " after " + strings.Join(pathNames(alpha, path), " "), Key: key, Kind: "step", Reproduced: 5}
					vv.SetInput(pathBytes(alpha, append(append([]int{}, path...), si)))
					r.Report(vv)
				} else if skel != "" {
					vv := &h.Viol{Fingerprint: view + "/step/skeleton:" + before.String() + "+" + alpha[si].l.Kind.String(), Summary: "snapshot skeleton differs from the model after " + strings.Join(names, " ") + ": " + skel, Key: key, Kind: "step", Reproduced: 5}
					vv.SetInput(pathBytes(alpha, append(append([]int{}, path...), si)))
					r.Report(vv)
				}
			}
			if !r.Mine(key) {
				return
			}
			lines := append(pathLines(alpha, path), alpha[si].l)
			for ti := 0; ti < 2; ti++ {
				tl := lines
				tkey := key
				if ti == 1 {
					if alpha[si].l.NoEOL {
						continue
					}
					tl = append(append([]rline.Line{}, lines...), trailerFor(crlf)...)
					tkey += " +trailer"
				}
				v := r.Check(func() *h.Viol {
					vv := checkTrace(tl, view)
					if vv != nil {
						vv.Key = tkey
					}
					return vv
				})
				out := "ok"
				if v != nil {
					out = v.Fingerprint
				}
				r.Record(tkey, len(path) > 0, fmt.Sprintf("%s %s->%s", out, before, m.St))
				r.Add("traces_validated_against_impl", 1)
				if len(path) == 6 && si%5 == 0 {
					r.Sample(map[string]any{"eol": eol, "lines": names, "model_state_after": m.St.String()})
				}
			}
		}}
		res, complete := runBFS(alpha, caps, hooks, r.Expired)
		if r.Shard == 0 {
			r.Add("states", res.states)
			r.Add("transitions", res.transitions)
			r.Max("max_depth", res.maxDepth)
		}
		if !complete {
			frontierEmpty = false
		}
	}
	r.Set("frontier_empty", frontierEmpty)
	if !frontierEmpty {
		r.Set("exhaustive_within_bound", false)
	}
}

func trailerFor(crlf bool) []rline.Line {
	out := make([]rline.Line, len(trailer))
	for i, l := range trailer {
		l.CRLF = crlf
		out[i] = l
	}
	return out
}

func replayTrace(t *testing.T, rv *h.Viol, view string) {
	in := rv.Input()
	t.Logf("replay %s\nrecorded: %s\ninput (%d bytes): %q", rv.Fingerprint, rv.Summary, len(in), trunc(string(in)))
	calls, term := resumeLoop(in, plainOpts(), 1000)
	for i, c := range calls {
		n := -1
		if c.snap != nil {
			n = len(c.snap.Goroutines)
		}
		t.Logf("call %d: forwarded=%q goroutines=%d remainder=%q err=%v panic=%q [%d,%d)", i, trunc(string(c.prefix)), n, trunc(string(c.suffix)), c.err, firstLine(c.panicked), c.start, c.end)
	}
	t.Logf("terminated=%v pass-through=%q", term, trunc(string(passThrough(calls))))
	// If the recorded case carries its line kinds, the model verdict can be recomputed
	// from the key (the symbol names); otherwise the log above is the replay.
	if k := rv.Key; strings.Contains(k, ":") && rv.Kind != "" {
		eol := k[:strings.Index(k, ":")]
		names := strings.Fields(strings.TrimSuffix(k[strings.Index(k, ":")+1:], " +trailer"))
		alpha := alphabet(eol == "CRLF")
		byName := map[string]int{}
		for i, s := range alpha {
			byName[s.name] = i
		}
		var lines []rline.Line
		ok := true
		for _, n := range names {
			i, found := byName[n]
			if !found {
				ok = false
				break
			}
			lines = append(lines, alpha[i].l)
		}
		if ok && len(lines) > 0 {
			if strings.HasSuffix(k, " +trailer") {
				lines = append(lines, trailerFor(eol == "CRLF")...)
			}
			if v := checkTrace(lines, view); v != nil {
				t.Errorf("VIOLATION reproduced: %s: %s", v.Fingerprint, v.Summary)
			} else {
				t.Logf("trace check: no violation on this tree")
			}
		}
	}
}

func TestVerifC07(t *testing.T) {
	r := h.Start("C07")
	defer r.Finish(func(s string) { t.Error(s) })
	r.Set("rule", "breadth-first search over pairs (real scanner state, reference automaton state); a transition applies one line of the alphabet (Appendix A of DESIGN.md) to the real scanningState.scan and to the model and compares consume/end-clean/end-invalid and the goroutine skeleton; run to an empty frontier under LF and under CRLF within caps; every explored (state, symbol) trace, alone and followed by two junk lines, is replayed through the public ScanSnapshot resume loop and compared with the model's segmentation (snapshot count, skeleton, resume position, error class, equality with the dump parsed alone)")
	r.Set("assumptions", []string{"the reference automaton (src/verifx/rline/model.go) states the documented grammar", "enabledness of indented/tsan-indented symbols is decided from the model state (DESIGN.md 4.1)", "product key is the full scanningState skeleton, no abstraction"})
	if rv := r.ReplayFile(); rv != nil {
		replayTrace(t, rv, "C07")
		return
	}
	if envPart() == "streams" {
		runStreamProduct(t, r, "C07")
		return
	}
	runLineSearch(t, r, "C07", true)
}

func TestVerifC02(t *testing.T) {
	r := h.Start("C02")
	defer r.Finish(func(s string) { t.Error(s) })
	r.Set("rule", "same product search as C07; oracle on every explored trace (alone and followed by two junk lines), through the public resume loop: the concatenation of forwarded bytes and the final remainder equals the stream minus the model's dump lines (one blank line directly after a dump may go either way), every remainder is the stream's bytes at its position; non-trivial = the trace has at least two lines")
	r.Set("assumptions", []string{"the reference automaton (src/verifx/rline/model.go) decides which lines belong to a dump", "a race preamble that is followed by a malformed operation header counts as a (malformed) report"})
	if rv := r.ReplayFile(); rv != nil {
		replayTrace(t, rv, "C02")
		return
	}
	if envPart() == "streams" {
		runStreamProduct(t, r, "C02")
		return
	}
	runLineSearch(t, r, "C02", false)
}

// runStreamProduct is the G-stream part of C02/C07: the product J0 D1 J1 D2 J2 of
// labelled junk and dump pieces, validated through the public API against the model.
func runStreamProduct(t *testing.T, r *h.Run, view string) {
	n := 0
	gen.ForEachStream(r.Thorough(), func(seq int, name string, lines []rline.Line) {
		n++
		if !r.MineIdx(seq) || r.Expired() {
			return
		}
		key := "stream: " + name
		v := r.Check(func() *h.Viol {
			for delivery := 0; delivery < 4; delivery++ {
				vv := checkTraceDelivered(lines, view, delivery)
				if vv != nil {
					vv.Key = key
					if delivery != 0 {
						vv.Summary = fmt.Sprintf("(delivery %d: %s) ", delivery, []string{"", "line by line, EOF with the last data", "5-byte pieces, EOF with the last data", "one Read returning everything together with EOF"}[delivery]) + vv.Summary
					}
					return vv
				}
			}
			return nil
		})
		out := "ok"
		if v != nil {
			out = v.Fingerprint
		}
		r.Record(key, true, out)
		r.Add("traces_validated_against_impl", 1)
		if seq%20011 == 0 {
			r.Sample(map[string]any{"stream_pieces": name})
		}
	})
	if r.Shard == 0 {
		r.Add("product_streams", n)
	}
}
