//go:build verif

package stack

// Comparison of a parsed *Snapshot with the ground truth of the generators.

import (
	"bytes"
	"fmt"
	"io"
	"runtime/debug"
	"strings"

	"github.com/maruel/panicparse/v2/internal/verifx/gen"
)

func plainOpts() *Opts {
	return &Opts{}
}

type scanResult struct {
	snap     *Snapshot
	prefix   []byte
	suffix   []byte
	err      error
	panicked string
}

// scanOnce runs one ScanSnapshot under recover.
func scanOnce(in io.Reader, opts *Opts) (res scanResult) {
	defer func() {
		if e := recover(); e != nil {
			res.panicked = fmt.Sprintf("%v\n%s", e, debug.Stack())
		}
	}()
	var pre bytes.Buffer
	s, suffix, err := ScanSnapshot(in, &pre, opts)
	res.snap, res.suffix, res.err = s, suffix, err
	res.prefix = pre.Bytes()
	return res
}

func baseName(p string) string {
	if i := strings.LastIndexByte(p, '/'); i >= 0 {
		return p[i+1:]
	}
	return ""
}

func cmpArgs(got *Args, want *gen.Args, path string) string {
	if got.Elided != want.Elided {
		return fmt.Sprintf("%s: Elided=%v want %v", path, got.Elided, want.Elided)
	}
	if len(got.Values) != len(want.Vals) {
		return fmt.Sprintf("%s: %d values (%s) want %d (%s)", path, len(got.Values), got.String(), len(want.Vals), want.String())
	}
	for i := range want.Vals {
		g, w := &got.Values[i], &want.Vals[i]
		p := fmt.Sprintf("%s[%d]", path, i)
		if g.IsAggregate != w.Agg {
			return fmt.Sprintf("%s: IsAggregate=%v want %v", p, g.IsAggregate, w.Agg)
		}
		if w.Agg {
			if s := cmpArgs(&g.Fields, &w.Fields, p); s != "" {
				return s
			}
			continue
		}
		if g.IsOffsetTooLarge != w.TooLarge {
			return fmt.Sprintf("%s: IsOffsetTooLarge=%v want %v", p, g.IsOffsetTooLarge, w.TooLarge)
		}
		if w.TooLarge {
			continue
		}
		if g.Value != w.Val {
			return fmt.Sprintf("%s: Value=%#x want %#x", p, g.Value, w.Val)
		}
		if g.IsInaccurate != w.Inaccurate {
			return fmt.Sprintf("%s: IsInaccurate=%v want %v", p, g.IsInaccurate, w.Inaccurate)
		}
		wantPtr := w.Val > 512*1024 && w.Val < 1<<63-1
		if g.IsPtr != wantPtr {
			return fmt.Sprintf("%s: IsPtr=%v for value %#x want %v", p, g.IsPtr, w.Val, wantPtr)
		}
		if len(g.Fields.Values) != 0 {
			return p + ": scalar with fields"
		}
	}
	return ""
}

// cmpCall returns (category, message).
func cmpCall(got *Call, want *gen.Call, creator bool, createdIn int) (string, string) {
	if got.Func.ImportPath != want.Pkg {
		return "func.ImportPath", fmt.Sprintf("Func.ImportPath=%q want %q (printed %q)", got.Func.ImportPath, want.Pkg, want.Sym())
	}
	if got.Func.Name != want.Name {
		return "func.Name", fmt.Sprintf("Func.Name=%q want %q (printed %q)", got.Func.Name, want.Name, want.Sym())
	}
	wc := want.Complete()
	if got.Func.Complete != wc && !(creator && createdIn != 0 && got.Func.Complete == fmt.Sprintf("%s in goroutine %d", wc, createdIn)) {
		return "func.Complete", fmt.Sprintf("Func.Complete=%q want %q", got.Func.Complete, wc)
	}
	if got.RemoteSrcPath != want.File {
		return "file", fmt.Sprintf("RemoteSrcPath=%q want %q", trunc(got.RemoteSrcPath), trunc(want.File))
	}
	if got.Line != want.Line {
		return "line", fmt.Sprintf("Line=%d want %d", got.Line, want.Line)
	}
	if got.SrcName != baseName(want.File) {
		return "srcname", fmt.Sprintf("SrcName=%q want %q", trunc(got.SrcName), trunc(baseName(want.File)))
	}
	if !creator {
		if s := cmpArgs(&got.Args, &want.Args, "args"); s != "" {
			return "args", s
		}
	}
	return "", ""
}

func trunc(s string) string {
	if len(s) > 120 {
		return s[:60] + fmt.Sprintf("...[%d]...", len(s)) + s[len(s)-40:]
	}
	return s
}

// cmpGoroutine compares goroutine i of a parse with the truth.
func cmpGoroutine(got *Goroutine, want *gen.Goroutine, i int) (string, string) {
	if got.ID != want.ID {
		return "id", fmt.Sprintf("ID=%d want %d", got.ID, want.ID)
	}
	if got.First != (i == 0) {
		return "first", fmt.Sprintf("First=%v on goroutine index %d", got.First, i)
	}
	if got.State != want.State {
		return "state", fmt.Sprintf("State=%q want %q", got.State, want.State)
	}
	if got.SleepMin != want.Minutes || got.SleepMax != want.Minutes {
		return "sleep", fmt.Sprintf("Sleep=%d~%d want %d", got.SleepMin, got.SleepMax, want.Minutes)
	}
	if got.Locked != want.Locked {
		return "locked", fmt.Sprintf("Locked=%v want %v", got.Locked, want.Locked)
	}
	if got.RaceAddr != 0 || got.RaceWrite {
		return "race-fields", "race fields set on a goroutine dump"
	}
	if want.Unavailable {
		if len(got.Stack.Calls) != 1 || got.Stack.Calls[0].RemoteSrcPath != "<unavailable>" {
			return "unavailable", fmt.Sprintf("unavailable stack parsed as %d calls", len(got.Stack.Calls))
		}
	} else {
		if len(got.Stack.Calls) != len(want.Calls) {
			return "frame-count", fmt.Sprintf("%d frames want %d", len(got.Stack.Calls), len(want.Calls))
		}
		for k := range want.Calls {
			if cat, msg := cmpCall(&got.Stack.Calls[k], &want.Calls[k], false, 0); cat != "" {
				return "frame." + cat, fmt.Sprintf("frame %d: %s", k, msg)
			}
		}
	}
	if got.Stack.Elided != (want.ElidedText != "") {
		return "stack-elided", fmt.Sprintf("Stack.Elided=%v want %v", got.Stack.Elided, want.ElidedText != "")
	}
	if want.Created == nil {
		if len(got.CreatedBy.Calls) != 0 {
			return "creator", "CreatedBy set, none printed"
		}
	} else {
		if len(got.CreatedBy.Calls) != 1 {
			return "creator", fmt.Sprintf("CreatedBy has %d calls want 1", len(got.CreatedBy.Calls))
		}
		if cat, msg := cmpCall(&got.CreatedBy.Calls[0], want.Created, true, want.CreatedIn); cat != "" {
			return "creator." + cat, "created by: " + msg
		}
	}
	return "", ""
}

// cmpDump compares a whole parse with a dump's truth. Returns category, message.
func cmpDump(s *Snapshot, d *gen.Dump) (string, string) {
	if s == nil {
		return "no-snapshot", "no snapshot returned for a dump"
	}
	n := len(s.Goroutines)
	if n > len(d.Gs) {
		n = len(d.Gs)
	}
	for i := 0; i < n; i++ {
		if cat, msg := cmpGoroutine(s.Goroutines[i], &d.Gs[i], i); cat != "" {
			which := "g0"
			if i > 0 {
				which = "g1+"
			}
			return which + "." + cat, fmt.Sprintf("goroutine index %d: %s", i, msg)
		}
	}
	if len(s.Goroutines) != len(d.Gs) {
		return "goroutine-count", fmt.Sprintf("%d goroutines want %d", len(s.Goroutines), len(d.Gs))
	}
	return "", ""
}
