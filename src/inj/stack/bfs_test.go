//go:build verif

package stack

// E2: explicit-state product search (real scanner x reference model R-line) over
// the line alphabet of Appendix A, plus validation of every explored trace
// through the public ScanSnapshot resume loop. Serves C02, C03, C07, C08.

import (
	"bytes"
	"errors"
	"fmt"
	"io"
	"strings"

	"github.com/maruel/panicparse/v2/internal/verifx/h"
	"github.com/maruel/panicparse/v2/internal/verifx/rline"
)

const bfsIndent = "  "

type sym struct {
	name string
	l    rline.Line
	// enabled decides, from the *model* state, whether the symbol is offered.
	enabled func(m *rline.Model, caps bfsCaps) bool
}

type bfsCaps struct{ G, F, K int }

func inAny(s rline.St, set ...rline.St) bool {
	for _, x := range set {
		if s == x {
			return true
		}
	}
	return false
}

func raceState(s rline.St) bool {
	return inAny(s, rline.RO, rline.ROF, rline.ROL, rline.RB, rline.RG, rline.RGF, rline.RGL, rline.RGB)
}

func sections(m *rline.Model) int {
	n := 0
	for _, g := range m.Gs {
		if g.HasSect {
			n++
		}
	}
	return n
}

// alphabet builds Sigma. crlf selects the EOL of the whole run.
func alphabet(crlf bool) []sym {
	var out []sym
	always := func(*rline.Model, bfsCaps) bool { return true }
	add := func(name, text string, k rline.Kind, en func(*rline.Model, bfsCaps) bool, mod func(*rline.Line)) {
		l := rline.Line{Text: text, Kind: k, CRLF: crlf}
		if mod != nil {
			mod(&l)
		}
		if en == nil {
			en = always
		}
		if l.Indent == "" && text != "" && (text[0] == ' ' || text[0] == '\t') {
			// A text that itself starts with the dump's indentation is, inside that dump,
			// indistinguishable from an indentation-carrying line: not offered there.
			inner := en
			en = func(m *rline.Model, c bfsCaps) bool {
				return !(m.Indent != "" && strings.HasPrefix(text, m.Indent)) && inner(m, c)
			}
		}
		out = append(out, sym{name: name, l: l, enabled: en})
	}
	// indentation discipline: a plain (unindented) line is always offered; a P-carrying
	// line only where the model is looking or inside a dump indented by P.
	pOK := func(m *rline.Model, _ bfsCaps) bool { return m.St == rline.L || m.Indent == bfsIndent }
	hdrOK := func(m *rline.Model, c bfsCaps) bool {
		return !(m.St == rline.B && len(m.Gs) >= c.G) && m.Indent == ""
	}
	hdrPOK := func(m *rline.Model, c bfsCaps) bool {
		return pOK(m, c) && !(m.St == rline.B && len(m.Gs) >= c.G) && (m.St != rline.B || m.Indent == bfsIndent)
	}
	funcOK := func(m *rline.Model, c bfsCaps) bool {
		switch m.St {
		case rline.FF, rline.ROL:
			return m.Gs[len(m.Gs)-1].Frames < c.F
		case rline.RGL:
			return m.Gs[m.Sel].Created < c.F
		}
		return true
	}
	noRaceFuncOK := func(m *rline.Model, c bfsCaps) bool { return funcOK(m, c) }
	rfuncOK := func(m *rline.Model, c bfsCaps) bool {
		// tsan-indented function lines are offered where a race stack is being read and while looking.
		return (m.St == rline.L || raceState(m.St)) && funcOK(m, c)
	}
	elidedOK := func(m *rline.Model, _ bfsCaps) bool {
		return !(m.St == rline.FF && m.Gs[len(m.Gs)-1].Elided)
	}
	prevOK := func(m *rline.Model, c bfsCaps) bool { return !(m.St == rline.RB && len(m.Gs) >= c.G) }
	ghdrOK := func(id int) func(m *rline.Model, c bfsCaps) bool {
		return func(m *rline.Model, c bfsCaps) bool {
			if m.St == rline.RB || m.St == rline.RGB {
				if sections(m) >= c.K {
					return false
				}
				for _, g := range m.Gs {
					if g.ID == id && g.HasSect {
						return false
					}
				}
			}
			return true
		}
	}
	hdr := func(id int, st string) func(*rline.Line) {
		return func(l *rline.Line) { l.ID, l.State = id, st }
	}
	op := func(id int, w bool) func(*rline.Line) { return func(l *rline.Line) { l.ID, l.Write = id, w } }
	gh := func(id int, st string) func(*rline.Line) { return func(l *rline.Line) { l.ID, l.State = id, st } }

	add("BLANK", "", rline.BLANK, nil, nil)
	add("HDR1", "goroutine 1 [running]:", rline.HDR, hdrOK, hdr(1, "running"))
	add("HDR2", "goroutine 2 [chan receive, 3 minutes, locked to thread]:", rline.HDR, hdrOK, hdr(2, "chan receive"))
	add("HDR3ann", "goroutine 3 gp=0xc000002380 m=0 mp=0x5f4f40 [select]:", rline.HDR, hdrOK, hdr(3, "select"))
	add("HDRbad", "goroutine 1234567890123456789 [running]:", rline.OTHER, nil, nil)
	add("FUNC", "main.main()", rline.FUNC, noRaceFuncOK, nil)
	add("FUNCargs", "main.f(0x1, {0xc000012345, 0x2}, ...)", rline.FUNC, noRaceFuncOK, nil)
	add("FUNCesc", "gopkg.in/yaml%2ev2.(*T).M(0xc000012345)", rline.FUNC, noRaceFuncOK, nil)
	add("FUNCbadargs", "main.f(zz)", rline.FUNCBAD, nil, nil)
	add("FUNCbadbrace", "main.f({0x1)", rline.FUNCBAD, nil, nil)
	add("FUNCbadesc", "a%zz.f()", rline.FUNCBAD, nil, nil)
	add("FUNClike", "--- FAIL: TestX (0.00s)", rline.FUNCLIKE, nil, nil)
	add("FILE", "\t/a/b.go:10 +0x1", rline.FILE, nil, nil)
	add("FILEsp", "    /a/b.go:10", rline.FILE, nil, nil)
	add("FILEann", "\t/a/b.go:10 +0x1 fp=0xc000 sp=0xc010 pc=0x45", rline.FILE, nil, nil)
	add("FILEbad", "\t/a/b.go:1234567890123456789", rline.FILEBAD, nil, nil)
	add("CREATED", "created by main.g", rline.CREATED, nil, nil)
	add("CREATEDin", "created by main.g in goroutine 1", rline.CREATED, nil, nil)
	add("CREATEDbad", "created by a%zz.g", rline.CREATEDBAD, nil, nil)
	add("ELIDEDold", "...additional frames elided...", rline.ELIDED, elidedOK, nil)
	add("ELIDEDnew", "...3 frames elided...", rline.ELIDED, elidedOK, nil)
	add("UNAVAIL", "\tgoroutine running on other thread; stack unavailable", rline.UNAVAIL, nil, nil)
	add("SEP", "==================", rline.SEP, nil, nil)
	add("WARN", "WARNING: DATA RACE", rline.WARN, nil, nil)
	add("OPHDRr7", "Read at 0x00c000014100 by goroutine 7:", rline.OPHDR, nil, op(7, false))
	add("OPHDRw7", "Write at 0x00c000014100 by goroutine 7:", rline.OPHDR, nil, op(7, true))
	add("PREVw8", "Previous write at 0x00c000014100 by goroutine 8:", rline.PREVHDR, prevOK, op(8, true))
	add("PREVr9", "Previous read at 0x00c000014100 by goroutine 9:", rline.PREVHDR, prevOK, op(9, false))
	add("OPHDRbad", "Read at 0x00c00001410000000000 by goroutine 7:", rline.OPHDRBAD, nil, nil)
	add("GHDR7", "Goroutine 7 (running) created at:", rline.GHDR, ghdrOK(7), gh(7, "running"))
	add("GHDR8", "Goroutine 8 (finished) created at:", rline.GHDR, ghdrOK(8), gh(8, "finished"))
	add("GHDR99", "Goroutine 99 (running) created at:", rline.GHDR, ghdrOK(99), gh(99, "running"))
	add("RFUNC", "  main.r()", rline.RFUNC, rfuncOK, nil)
	add("RFILE", "      /a/b.go:1 +0x1", rline.FILE, nil, nil)
	add("OTHERhello", "hello", rline.OTHER, nil, nil)
	add("OTHERpanic", "panic: x", rline.OTHER, nil, nil)
	add("OTHERexit", "exit status 2", rline.OTHER, nil, nil)
	add("OTHERlong", strings.Repeat("x", 40*1024), rline.OTHER, nil, nil)
	// P-carrying variants
	ind := func(f func(*rline.Line)) func(*rline.Line) {
		return func(l *rline.Line) {
			l.Indent = bfsIndent
			if f != nil {
				f(l)
			}
		}
	}
	add("P.HDR1", "goroutine 1 [running]:", rline.HDR, hdrPOK, ind(hdr(1, "running")))
	add("P.HDR2", "goroutine 2 [chan receive, 3 minutes, locked to thread]:", rline.HDR, hdrPOK, ind(hdr(2, "chan receive")))
	add("P.FUNC", "main.main()", rline.FUNC, func(m *rline.Model, c bfsCaps) bool { return pOK(m, c) && funcOK(m, c) }, ind(nil))
	add("P.FUNCargs", "main.f(0x1, {0xc000012345, 0x2}, ...)", rline.FUNC, func(m *rline.Model, c bfsCaps) bool { return pOK(m, c) && funcOK(m, c) }, ind(nil))
	add("P.FILE", "\t/a/b.go:10 +0x1", rline.FILE, pOK, ind(nil))
	add("P.CREATED", "created by main.g", rline.CREATED, pOK, ind(nil))
	add("P.ELIDED", "...3 frames elided...", rline.ELIDED, func(m *rline.Model, c bfsCaps) bool { return pOK(m, c) && elidedOK(m, c) }, ind(nil))
	add("P.UNAVAIL", "\tgoroutine running on other thread; stack unavailable", rline.UNAVAIL, pOK, ind(nil))
	add("P.OTHER", "hello", rline.OTHER, pOK, ind(nil))
	add("P.BLANK", "", rline.BLANK, pOK, ind(nil))
	add("P-1.FILE", "\t/a/b.go:10 +0x1", rline.FILE, func(m *rline.Model, _ bfsCaps) bool { return m.Indent == bfsIndent }, func(l *rline.Line) { l.Indent = " " })
	// a second indentation family: one tab
	tOK := func(m *rline.Model, _ bfsCaps) bool { return m.St == rline.L || m.Indent == "\t" }
	tab := func(f func(*rline.Line)) func(*rline.Line) {
		return func(l *rline.Line) {
			l.Indent = "\t"
			if f != nil {
				f(l)
			}
		}
	}
	add("T.HDR1", "goroutine 1 [running]:", rline.HDR, func(m *rline.Model, c bfsCaps) bool {
		return tOK(m, c) && !(m.St == rline.B && len(m.Gs) >= c.G)
	}, tab(hdr(1, "running")))
	add("T.FUNC", "main.main()", rline.FUNC, func(m *rline.Model, c bfsCaps) bool { return tOK(m, c) && funcOK(m, c) }, tab(nil))
	add("T.FILE", "\t/a/b.go:10 +0x1", rline.FILE, tOK, tab(nil))
	add("T.BLANK", "", rline.BLANK, tOK, tab(nil))
	add("T.OTHER", "hello", rline.OTHER, tOK, tab(nil))
	// unterminated variants (only as the last line)
	noeol := func(f func(*rline.Line)) func(*rline.Line) {
		return func(l *rline.Line) {
			l.NoEOL = true
			if f != nil {
				f(l)
			}
		}
	}
	add("HDR1$", "goroutine 1 [running]:", rline.HDR, hdrOK, noeol(hdr(1, "running")))
	add("FUNC$", "main.main()", rline.FUNC, noRaceFuncOK, noeol(nil))
	add("FILE$", "\t/a/b.go:10 +0x1", rline.FILE, nil, noeol(nil))
	add("CREATED$", "created by main.g", rline.CREATED, nil, noeol(nil))
	add("SEP$", "==================", rline.SEP, nil, noeol(nil))
	add("WARN$", "WARNING: DATA RACE", rline.WARN, nil, noeol(nil))
	add("OTHER$", "hello", rline.OTHER, nil, noeol(nil))
	add("OPHDRr7$", "Read at 0x00c000014100 by goroutine 7:", rline.OPHDR, nil, noeol(op(7, false)))
	add("RFILE$", "      /a/b.go:1 +0x1", rline.FILE, nil, noeol(nil))
	return out
}

// ---- the implementation side -------------------------------------------------------

// implScanner is the implementation side of the product: one line at a time.
type implScanner interface {
	step(line []byte) (consumed bool, err error, panicked string)
	key() string
	goroutines() []*Goroutine
}

// newImplScanner makes the implementation side. bfs_inpkg_test.go installs the
// in-package version (the real scanningState, full internal state as key). If that
// file no longer compiles against the tree the driver drops it and the search runs
// on this public-API version: every step re-scans the lines fed so far with
// ScanSnapshot; the state key is then what the public API shows.
var newImplScanner = func() implScanner { return &publicScanner{} }

var implScannerKind = "public API (ScanSnapshot re-scan per step; per-step consumption is not observable there, so steps follow the reference automaton and every trace is judged through the resume loop)"

// implStepComparable: the implementation side reports per-line consumption reliably.
var implStepComparable = false

type publicScanner struct {
	fed  []byte
	last scanResult
}

func (p *publicScanner) step(line []byte) (bool, error, string) {
	p.fed = append(p.fed, line...)
	res := scanOnce(bytes.NewReader(p.fed), plainOpts())
	p.last = res
	if res.panicked != "" {
		return false, nil, res.panicked
	}
	consumed := !bytes.HasSuffix(res.suffix, line) && !bytes.HasSuffix(res.prefix, line)
	err := res.err
	if err == io.EOF {
		err = nil
	}
	if !consumed {
		// the line is not part of what will be fed to the continuation of this path
		p.fed = p.fed[:len(p.fed)-len(line)]
	}
	return consumed, err, ""
}

func (p *publicScanner) key() string {
	var b strings.Builder
	fmt.Fprintf(&b, "pub|%d", len(p.last.prefix))
	for _, g := range p.goroutines() {
		fmt.Fprintf(&b, "|%d,%v,%q,%d,%v,%d,%v,%v,%v,%d", g.ID, g.First, g.State, len(g.Stack.Calls), g.Stack.Elided, len(g.CreatedBy.Calls), g.RaceAddr != 0, g.RaceWrite, g.Locked, g.SleepMax)
	}
	return b.String()
}

func (p *publicScanner) goroutines() []*Goroutine {
	if p.last.snap == nil {
		return nil
	}
	return p.last.snap.Goroutines
}

// skeletonDiff compares the goroutine skeleton of the implementation with the model's.
func skeletonDiff(gs []*Goroutine, ms []rline.G) string {
	return skeletonDiffL(gs, ms, false)
}

// skeletonDiffL: with lenient set (the call reported a parse error) the goroutine
// being read may carry one stub frame made from the offending line.
func skeletonDiffL(gs []*Goroutine, ms []rline.G, lenient bool) string {
	if len(gs) != len(ms) {
		return fmt.Sprintf("%d goroutines, model has %d", len(gs), len(ms))
	}
	for i := range ms {
		g, m := gs[i], &ms[i]
		if g.ID != m.ID {
			return fmt.Sprintf("goroutine[%d].ID=%d model %d", i, g.ID, m.ID)
		}
		if g.First != m.First {
			return fmt.Sprintf("goroutine[%d].First=%v model %v", i, g.First, m.First)
		}
		wantCalls := m.Frames
		if m.Unavail {
			wantCalls = 1
		}
		if len(g.Stack.Calls) != wantCalls && !(lenient && len(g.Stack.Calls) == wantCalls+1) {
			return fmt.Sprintf("goroutine[%d] has %d frames model %d", i, len(g.Stack.Calls), wantCalls)
		}
		if g.Stack.Elided != m.Elided {
			return fmt.Sprintf("goroutine[%d].Stack.Elided=%v model %v", i, g.Stack.Elided, m.Elided)
		}
		if len(g.CreatedBy.Calls) != m.Created && !(lenient && len(g.CreatedBy.Calls) == m.Created+1) {
			return fmt.Sprintf("goroutine[%d] has %d creation frames model %d", i, len(g.CreatedBy.Calls), m.Created)
		}
		if m.Race {
			if g.RaceAddr == 0 {
				return fmt.Sprintf("goroutine[%d] has no race address", i)
			}
			if g.RaceWrite != m.Write {
				return fmt.Sprintf("goroutine[%d].RaceWrite=%v model %v", i, g.RaceWrite, m.Write)
			}
			if g.State != m.State {
				return fmt.Sprintf("goroutine[%d].State=%q model %q (creation section attribution)", i, g.State, m.State)
			}
		} else {
			if g.RaceAddr != 0 {
				return fmt.Sprintf("goroutine[%d] has a race address in a goroutine dump", i)
			}
			if g.State != m.State {
				return fmt.Sprintf("goroutine[%d].State=%q model %q", i, g.State, m.State)
			}
		}
	}
	return ""
}

// ---- the search ----------------------------------------------------------------------

type bfsNode struct {
	path []int
}

type bfsResult struct {
	states, transitions int
	maxDepth            int
	keys                map[string][]int // product key -> shortest path
	order               []string
}

type stepVerdict struct {
	fp, msg string
}

// compareStep compares one step of implementation and model.
func compareStep(before rline.St, s *sym, consumed bool, err error, panicked string, o rline.Out, inDumpBefore bool) *stepVerdict {
	tag := fmt.Sprintf("%s+%s", before, s.l.Kind)
	if s.l.Indent != "" {
		tag += ".P"
	}
	if s.l.NoEOL {
		tag += "$"
	}
	if panicked != "" {
		return &stepVerdict{"panic:" + firstLine(panicked) + "@" + tag, "scan panicked: " + firstLine(panicked)}
	}
	if consumed != o.Consume {
		if o.Consume {
			return &stepVerdict{"not-consumed:" + tag, fmt.Sprintf("model state %s: line %q belongs to the dump but the scanner did not consume it (err=%v)", before, trunc(s.l.Text), err)}
		}
		return &stepVerdict{"consumed:" + tag, fmt.Sprintf("model state %s: line %q cannot continue the dump but the scanner consumed it", before, trunc(s.l.Text))}
	}
	if inDumpBefore || o.Started || o.Malformed {
		switch {
		case o.Consume && err != nil:
			return &stepVerdict{"error-on-consumed:" + tag, fmt.Sprintf("consumed line %q reported error %v", trunc(s.l.Text), err)}
		case !o.Consume && o.Err == rline.MustErr && err == nil:
			return &stepVerdict{"missing-error:" + tag, fmt.Sprintf("model state %s: line %q invalidates the dump but no error was reported", before, trunc(s.l.Text))}
		case !o.Consume && o.Err == rline.NoErr && err != nil:
			return &stepVerdict{"spurious-error:" + tag, fmt.Sprintf("model state %s: line %q ends the dump cleanly but error %v was reported", before, trunc(s.l.Text), err)}
		}
	} else if err != nil && len(o.Released) == 0 {
		return &stepVerdict{"error-while-looking:" + tag, fmt.Sprintf("line %q outside a dump reported error %v", trunc(s.l.Text), err)}
	}
	return nil
}

// replay runs a path on fresh instances of both sides. It returns nil scanners if
// the path itself no longer agrees (cannot happen for explored paths).
func replayPath(alpha []sym, path []int) (implScanner, *rline.Model) {
	im := newImplScanner()
	m := &rline.Model{}
	for _, si := range path {
		s := &alpha[si]
		im.step(s.l.Bytes())
		m.Step(s.l)
	}
	return im, m
}

type bfsHooks struct {
	// onTransition is called for every explored (state, symbol) pair.
	onTransition func(path []int, si int, m *rline.Model, before rline.St, v *stepVerdict, skel string)
}

func pathNames(alpha []sym, path []int) []string {
	out := make([]string, len(path))
	for i, si := range path {
		out[i] = alpha[si].name
	}
	return out
}

func pathBytes(alpha []sym, path []int) []byte {
	var b bytes.Buffer
	for _, si := range path {
		b.Write(alpha[si].l.Bytes())
	}
	return b.Bytes()
}

func pathLines(alpha []sym, path []int) []rline.Line {
	out := make([]rline.Line, len(path))
	for i, si := range path {
		out[i] = alpha[si].l
	}
	return out
}

// runBFS explores the product graph to an empty frontier.
func runBFS(alpha []sym, caps bfsCaps, hooks bfsHooks, expired func() bool) (res bfsResult, complete bool) {
	res.keys = map[string][]int{}
	root := []int{}
	im, m := replayPath(alpha, root)
	k0 := im.key() + "||" + m.Key()
	res.keys[k0] = root
	res.order = append(res.order, k0)
	queue := [][]int{root}
	complete = true
	for len(queue) > 0 {
		if expired != nil && expired() {
			complete = false
			break
		}
		path := queue[0]
		queue = queue[1:]
		if len(path) > res.maxDepth {
			res.maxDepth = len(path)
		}
		_, mNode := replayPath(alpha, path)
		for si := range alpha {
			s := &alpha[si]
			if !s.enabled(mNode, caps) {
				continue
			}
			im, m := replayPath(alpha, path)
			before := m.St
			inDumpBefore := m.InDump()
			consumed, err, panicked := im.step(s.l.Bytes())
			o := m.Step(s.l)
			res.transitions++
			if !implStepComparable && panicked == "" {
				// follow the model; the trace validation is the oracle
				consumed, err = o.Consume, nil
				if !o.Consume && o.Err == rline.MustErr {
					err = errors.New("(not observable)")
				}
			}
			v := compareStep(before, s, consumed, err, panicked, o, inDumpBefore)
			skel := ""
			if v == nil && o.Consume && m.InDump() && implStepComparable {
				if d := skeletonDiff(im.goroutines(), m.Gs); d != "" {
					skel = d
				}
			}
			if hooks.onTransition != nil {
				hooks.onTransition(path, si, m, before, v, skel)
			}
			if v != nil || skel != "" {
				continue // do not explore behind a disagreement
			}
			if s.l.NoEOL {
				continue // an unterminated line ends the stream
			}
			if !o.Consume || o.EndsDump {
				// the dump ended (or the line was passed through): the continuation is the
				// fresh scanner reading this line, i.e. the successor of the root.
				if !(before == rline.L && !o.Consume) {
					continue
				}
				// pass-through while looking: the state must not have changed
			}
			np := append(append([]int{}, path...), si)
			key := im.key() + "||" + m.Key()
			if _, ok := res.keys[key]; !ok {
				res.keys[key] = np
				res.order = append(res.order, key)
				queue = append(queue, np)
			}
		}
	}
	res.states = len(res.keys)
	return res, complete
}

// ---- public API resume loop -------------------------------------------------------------

type callObs struct {
	prefix   []byte
	snap     *Snapshot
	suffix   []byte
	err      error
	panicked string
	start    int // stream offset where this call started reading
	end      int // stream offset of the first byte not consumed by this call (suffix start)
}

// resumeLoop scans a whole stream with ScanSnapshot, feeding each remainder back
// in front of the unread input, until EOF (parse errors do not stop it).
func resumeLoop(input []byte, opts *Opts, maxCalls int) (calls []callObs, terminated bool) {
	return resumeLoopWith(input, opts, maxCalls, nil)
}

// restReader is what resumeLoopWith needs from the stream reader.
type restReader interface {
	io.Reader
	Len() int
}

type scriptRest struct{ *scriptReader }

func (s scriptRest) Len() int { return len(s.unread()) }

func resumeLoopWith(input []byte, opts *Opts, maxCalls int, mk func() restReader) (calls []callObs, terminated bool) {
	var rest restReader = bytes.NewReader(input)
	if mk != nil {
		rest = mk()
	}
	var suffix []byte
	pos := 0
	for n := 0; n < maxCalls; n++ {
		in := io.MultiReader(bytes.NewReader(suffix), rest)
		res := scanOnce(in, opts)
		c := callObs{prefix: res.prefix, snap: res.snap, suffix: res.suffix, err: res.err, panicked: res.panicked, start: pos}
		c.end = len(input) - rest.Len() - len(res.suffix)
		calls = append(calls, c)
		if res.panicked != "" {
			return calls, true
		}
		if res.err == io.EOF {
			return calls, true
		}
		if res.err != nil && len(res.suffix) == 0 && rest.Len() == 0 {
			return calls, true
		}
		// progress check: a call must consume at least one byte unless it is at EOF
		suffix = res.suffix
		pos = c.end
	}
	return calls, false
}

// passThrough is everything the loop let through: forwarded prefixes, the last
// remainder (the unread input is empty once EOF was reached).
func passThrough(calls []callObs) []byte {
	var b bytes.Buffer
	for _, c := range calls {
		b.Write(c.prefix)
	}
	if n := len(calls); n > 0 {
		b.Write(calls[n-1].suffix)
	}
	return b.Bytes()
}

// lineDiff explains the difference between the expected pass-through (indexes of
// lines of the stream) and the observed bytes, as missing / extra line indexes,
// by a longest-common-subsequence alignment of lines.
func lineDiff(lines []rline.Line, expect []int, observed []byte) (missing, extra []int, garbled bool) {
	obsLines := splitLines(observed)
	exp := make([][]byte, len(expect))
	for i, idx := range expect {
		exp[i] = lines[idx].Bytes()
	}
	n, m := len(exp), len(obsLines)
	// lcs[i][j] = LCS length of exp[i:], obs[j:]
	lcs := make([][]int, n+1)
	for i := range lcs {
		lcs[i] = make([]int, m+1)
	}
	for i := n - 1; i >= 0; i-- {
		for j := m - 1; j >= 0; j-- {
			if bytes.Equal(exp[i], obsLines[j]) {
				lcs[i][j] = lcs[i+1][j+1] + 1
			} else if lcs[i+1][j] >= lcs[i][j+1] {
				lcs[i][j] = lcs[i+1][j]
			} else {
				lcs[i][j] = lcs[i][j+1]
			}
		}
	}
	used := map[int]bool{}
	for _, idx := range expect {
		used[idx] = true
	}
	i, j := 0, 0
	var extraLines [][]byte
	for i < n && j < m {
		switch {
		case bytes.Equal(exp[i], obsLines[j]):
			i++
			j++
		case lcs[i+1][j] >= lcs[i][j+1]:
			missing = append(missing, expect[i])
			i++
		default:
			extraLines = append(extraLines, obsLines[j])
			j++
		}
	}
	for ; i < n; i++ {
		missing = append(missing, expect[i])
	}
	for ; j < m; j++ {
		extraLines = append(extraLines, obsLines[j])
	}
	// name the extra lines by the first unexpected stream line with the same bytes
	for _, el := range extraLines {
		found := false
		for k, l := range lines {
			if !used[k] && bytes.Equal(l.Bytes(), el) {
				extra = append(extra, k)
				used[k] = true
				found = true
				break
			}
		}
		if !found {
			garbled = true
		}
	}
	return
}

func kindsOf(lines []rline.Line, idx []int) string {
	var ks []string
	for _, i := range idx {
		ks = append(ks, lines[i].Kind.String())
	}
	return strings.Join(ks, "+")
}

// checkTrace validates one stream through the public API against the model's
// prediction. which selects the property view: "C02" conservation, "C07"
// delimitation/resumption, "C03" robustness, "C08" race attribution.
func checkTrace(lines []rline.Line, which string) *h.Viol {
	return checkTraceDelivered(lines, which, 0)
}

// checkTraceDelivered: delivery 0 = everything at once; 1 = line by line with EOF
// reported together with the last data; 2 = 5-byte pieces; 3 = everything in one
// Read together with EOF.
func checkTraceDelivered(lines []rline.Line, which string, delivery int) *h.Viol {
	var input []byte
	var lens []int
	for _, l := range lines {
		b := l.Bytes()
		input = append(input, b...)
		lens = append(lens, len(b))
	}
	pred := rline.Predict(lines)
	var mkRest func() restReader
	switch delivery {
	case 1:
		mkRest = func() restReader { return scriptRest{&scriptReader{data: input, chunks: append([]int{}, lens...), eofWithData: true}} }
	case 3:
		mkRest = func() restReader { return scriptRest{&scriptReader{data: input, eofWithData: true}} }
	case 2:
		mkRest = func() restReader {
			var cs []int
			for k := 0; k < len(input); k += 5 {
				cs = append(cs, 5)
			}
			return scriptRest{&scriptReader{data: input, chunks: cs, eofWithData: true}}
		}
	}
	calls, terminated := resumeLoopWith(input, plainOpts(), len(lines)+3, mkRest)
	mk := func(fp, msg string) *h.Viol {
		v := &h.Viol{Fingerprint: which + "/" + fp, Summary: msg, Kind: "trace"}
		v.SetInput(input)
		var names []string
		for _, l := range lines {
			n := l.Kind.String()
			if l.Indent != "" {
				n = "P." + n
			}
			if l.NoEOL {
				n += "$"
			}
			names = append(names, n)
		}
		v.Extra = map[string]any{"line_kinds": strings.Join(names, " ")}
		return v
	}
	for _, c := range calls {
		if c.panicked != "" {
			p := firstLine(c.panicked)
			return mk("panic:"+p+"@"+panicSite(c.panicked), "ScanSnapshot panicked: "+p)
		}
	}
	if !terminated {
		return mk("resume-loop-does-not-terminate", fmt.Sprintf("no EOF after %d calls on a %d line stream", len(calls), len(lines)))
	}
	if which == "C03" {
		return nil
	}
	// --- conservation (C02) ---
	var expPass []int
	for _, p := range pred {
		expPass = append(expPass, p.Pass...)
		expPass = append(expPass, p.HeldAtEOF...)
	}
	obs := passThrough(calls)
	var expBytes []byte
	for _, i := range expPass {
		expBytes = append(expBytes, lines[i].Bytes()...)
	}
	if which == "C02" {
		if !bytes.Equal(obs, expBytes) {
			// tolerance: at most one blank line directly after each dump may be withheld or not
			if !equalModuloBlankAfterDump(lines, pred, obs) {
				missing, extra, garbled := lineDiff(lines, expPass, obs)
				fp := "pass-through-differs"
				switch {
				case garbled:
					fp = "garbled"
				case len(extra) == 0 && len(missing) > 0:
					fp = "lost:" + kindsOf(lines, missing) + lossContext(lines, pred, missing)
				case len(missing) == 0 && len(extra) > 0:
					fp = "dump-line-forwarded:" + kindsOf(lines, extra)
				default:
					fp = "lost:" + kindsOf(lines, missing) + "/forwarded:" + kindsOf(lines, extra)
				}
				return mk(fp, fmt.Sprintf("pass-through differs: missing lines %v extra lines %v; observed %q expected %q", missing, extra, trunc(string(obs)), trunc(string(expBytes))))
			}
		}
		// positional accounting: every call's forwarded bytes are the stream bytes at its position
		for ci, c := range calls {
			if c.start < 0 || c.end > len(input) || c.end < c.start {
				return mk("position-accounting", fmt.Sprintf("call %d covers [%d,%d) of %d", ci, c.start, c.end, len(input)))
			}
			if !bytes.Equal(c.suffix, input[c.end:c.end+len(c.suffix)]) {
				return mk("remainder-not-stream-bytes", fmt.Sprintf("call %d: remainder %q is not the stream at offset %d", ci, trunc(string(c.suffix)), c.end))
			}
		}
		return nil
	}
	// --- delimitation (C07) / race attribution (C08) ---
	// calls that returned a snapshot, in order, against predicted dumps in order
	var predDumps []rline.Call
	for _, p := range pred {
		if p.Gs != nil {
			predDumps = append(predDumps, p)
		}
	}
	var obsDumps []callObs
	for ci, c := range calls {
		if c.snap != nil {
			obsDumps = append(obsDumps, c)
		} else if c.err != nil && c.err != io.EOF && !malformedPreambleAt(pred, offsetsOf(lines), c.end) {
			return mk("error-outside-dump", fmt.Sprintf("call %d returned no snapshot but error %v: text that is not a dump must not be an error", ci, c.err))
		}
	}
	if len(predDumps) != len(obsDumps) {
		return mk(fmt.Sprintf("snapshot-count:%d-vs-%d", len(obsDumps), len(predDumps)), fmt.Sprintf("%d snapshots, the stream has %d dumps", len(obsDumps), len(predDumps)))
	}
	offsets := make([]int, len(lines)+1)
	for i, l := range lines {
		offsets[i+1] = offsets[i] + len(l.Bytes())
	}
	for di := range predDumps {
		p, c := predDumps[di], obsDumps[di]
		if d := skeletonDiffL(c.snap.Goroutines, p.Gs, c.err != nil && c.err != io.EOF && p.Err != rline.NoErr); d != "" {
			return mk("snapshot-differs", fmt.Sprintf("dump %d: %s", di, d))
		}
		if !p.AtEOF && c.end != offsets[p.Next] {
			// one blank after the dump may or may not be withheld
			if !(p.Next < len(lines) && lines[p.Next].Kind == rline.BLANK && c.end == offsets[p.Next+1]) {
				return mk("resume-position", fmt.Sprintf("dump %d: scanning resumes at offset %d, the first line that cannot continue the dump is at %d", di, c.end, offsets[p.Next]))
			}
		}
		switch p.Err {
		case rline.MustErr:
			if c.err == nil || c.err == io.EOF {
				return mk("missing-error", fmt.Sprintf("dump %d is invalidated by its last line but err=%v", di, c.err))
			}
		case rline.NoErr:
			if c.err != nil && c.err != io.EOF {
				return mk("spurious-error", fmt.Sprintf("dump %d ends cleanly but err=%v", di, c.err))
			}
		}
		// differential: the snapshot equals what scanning the dump's own lines yields
		var seg []byte
		for _, i := range p.Dump {
			seg = append(seg, lines[i].Bytes()...)
		}
		alone := scanOnce(bytes.NewReader(seg), plainOpts())
		if alone.panicked == "" && (c.err == nil || c.err == io.EOF) && canonSnapshot(alone.snap) != canonSnapshot(c.snap) {
			return mk("snapshot-differs-from-dump-alone", fmt.Sprintf("dump %d parsed in the stream differs from the same lines parsed alone", di))
		}
	}
	return nil
}

func panicSite(stack string) string {
	for _, l := range strings.Split(stack, "\n") {
		if strings.Contains(l, "panicparse/v2/stack.") && !strings.Contains(l, "zz_verif") && !strings.Contains(l, "scanOnce") {
			l = strings.TrimSpace(l)
			if i := strings.Index(l, "("); i > 0 {
				l = l[:i]
			}
			if i := strings.LastIndex(l, "/"); i >= 0 {
				l = l[i+1:]
			}
			return l
		}
	}
	return "?"
}

// lossContext narrows a "lost" fingerprint: where were the lost lines.
func lossContext(lines []rline.Line, pred []rline.Call, missing []int) string {
	if len(missing) == 0 {
		return ""
	}
	last := missing[len(missing)-1]
	for _, p := range pred {
		for _, i := range p.HeldAtEOF {
			if i == last {
				return ":at-eof"
			}
		}
	}
	// directly after a consumed footer?
	first := missing[0]
	for _, p := range pred {
		if len(p.Dump) > 0 && p.Dump[len(p.Dump)-1] == first-1 && lines[first-1].Kind == rline.SEP {
			return ":after-race-footer"
		}
	}
	if last+1 < len(lines) {
		return ":next=" + lines[last+1].Kind.String()
	}
	return ""
}

func equalModuloBlankAfterDump(lines []rline.Line, pred []rline.Call, obs []byte) bool {
	// Build the expected pass-through where, for each dump whose last line is BLANK,
	// that blank may alternatively be forwarded; and where the line after a dump, if
	// BLANK, may alternatively be withheld. Try all combinations (few dumps).
	type opt struct{ idx int }
	var optional []int // line indexes that may be either forwarded or withheld
	base := map[int]bool{}
	for _, p := range pred {
		for _, i := range p.Pass {
			base[i] = true
		}
		for _, i := range p.HeldAtEOF {
			base[i] = true
		}
		if p.Gs != nil && len(p.Dump) > 0 {
			lastIdx := p.Dump[len(p.Dump)-1]
			if lines[lastIdx].Kind == rline.BLANK {
				optional = append(optional, lastIdx)
			} else if lastIdx+1 < len(lines) && lines[lastIdx+1].Kind == rline.BLANK {
				optional = append(optional, lastIdx+1)
			}
		}
	}
	if len(optional) > 10 {
		optional = optional[:10]
	}
	for mask := 0; mask < 1<<len(optional); mask++ {
		sel := map[int]bool{}
		for k, v := range base {
			sel[k] = v
		}
		for b, idx := range optional {
			sel[idx] = mask&(1<<b) != 0
		}
		var e []byte
		for i, l := range lines {
			if sel[i] {
				e = append(e, l.Bytes()...)
			}
		}
		if bytes.Equal(e, obs) {
			return true
		}
	}
	return false
}

func offsetsOf(lines []rline.Line) []int {
	offsets := make([]int, len(lines)+1)
	for i, l := range lines {
		offsets[i+1] = offsets[i] + len(l.Bytes())
	}
	return offsets
}

// malformedPreambleAt: the model predicts a call without snapshot that ends, with an
// error allowed, at this stream offset (a race preamble followed by a malformed
// operation header).
func malformedPreambleAt(pred []rline.Call, offsets []int, end int) bool {
	for _, p := range pred {
		if p.Gs == nil && !p.AtEOF && p.Err != rline.NoErr && offsets[p.Next] == end {
			return true
		}
	}
	return false
}
