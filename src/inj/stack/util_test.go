//go:build verif

package stack

import "os"

func osGetenv(k string) string { return os.Getenv(k) }
