//go:build verif

package stack

// C17: HTML rendering is injection-safe and complete. Hostile payloads in every
// string field position (alone and in pairs) of directly constructed snapshots;
// the hostile document and its benign twin (payloads replaced by alphanumeric
// markers) must tokenise to the same element/attribute-name skeleton, every link
// target keeps a fixed scheme, rendering succeeds, every bucket/goroutine and
// frame is present.

import (
	"bytes"
	"fmt"
	"html"
	"html/template"
	"sort"
	"strings"
	"testing"

	"github.com/maruel/panicparse/v2/internal/verifx/h"
)

var c17Payloads = []string{
	`<script>alert(1)</script>`,
	`"><img src=x onerror=alert(1)>`,
	`' onmouseover='alert(1)`,
	`javascript:alert(1)`,
	`</a></td></tr></table><h1>x`,
	`--><script>`,
	`&lt;b&gt;&amp;`,
	`{{.}}{{template "x"}}`,
	"%0a%0d%22%3e",
	"a\x00b",
	"a b ",
	`\"\'`,
	"`onerror=alert(1)`",
	`]]><x>`,
	`data:text/html,<script>alert(1)</script>`,
	`//evil.example/`,
	`   `,
	strings.Repeat("A<", 1000),
	`" style="position:fixed" href="javascript:x`,
	`a?q=1&r=2#frag`,
	`</style><script>`,
}

type c17Pos struct {
	name string
	set  func(s *Snapshot, v string)
}

func c17Positions() []c17Pos {
	call := func(s *Snapshot, g, c int) *Call { return &s.Goroutines[g].Stack.Calls[c] }
	cr := func(s *Snapshot, g int) *Call { return &s.Goroutines[g].CreatedBy.Calls[0] }
	both := func(s *Snapshot, f func(c *Call)) {
		// goroutines 0 and 1 are twins (they merge): set the same field in both
		f(call(s, 0, 0))
		f(call(s, 1, 0))
	}
	return []c17Pos{
		{"state", func(s *Snapshot, v string) { s.Goroutines[0].State = v; s.Goroutines[1].State = v }},
		{"state-g2", func(s *Snapshot, v string) { s.Goroutines[2].State = v }},
		{"func.name", func(s *Snapshot, v string) { both(s, func(c *Call) { c.Func.Name = v }) }},
		{"func.dirname", func(s *Snapshot, v string) { both(s, func(c *Call) { c.Func.DirName = v }) }},
		{"func.complete", func(s *Snapshot, v string) { both(s, func(c *Call) { c.Func.Complete = v }) }},
		{"func.importpath", func(s *Snapshot, v string) { both(s, func(c *Call) { c.Func.ImportPath = v }) }},
		{"call.importpath", func(s *Snapshot, v string) { both(s, func(c *Call) { c.ImportPath = v }) }},
		{"call.importpath-vendor", func(s *Snapshot, v string) { both(s, func(c *Call) { c.ImportPath = "example.com/a/vendor/" + v }) }},
		{"remotesrcpath", func(s *Snapshot, v string) { both(s, func(c *Call) { c.RemoteSrcPath = v }) }},
		{"localsrcpath", func(s *Snapshot, v string) { both(s, func(c *Call) { c.LocalSrcPath = v }) }},
		{"srcname", func(s *Snapshot, v string) { both(s, func(c *Call) { c.SrcName = v }) }},
		{"relsrcpath", func(s *Snapshot, v string) { both(s, func(c *Call) { c.RelSrcPath = v }) }},
		{"relsrcpath-github-user", func(s *Snapshot, v string) { both(s, func(c *Call) { c.RelSrcPath = "github.com/" + v + "/proj@v1.2.3/f.go" }) }},
		{"relsrcpath-github-proj", func(s *Snapshot, v string) { both(s, func(c *Call) { c.RelSrcPath = "github.com/user/" + v + "@v1.2.3/f.go" }) }},
		{"relsrcpath-github-tag", func(s *Snapshot, v string) { both(s, func(c *Call) { c.RelSrcPath = "github.com/user/proj@" + v + "/f.go" }) }},
		{"relsrcpath-github-pseudo", func(s *Snapshot, v string) {
			both(s, func(c *Call) { c.RelSrcPath = "github.com/user/proj@v0.0.0-20200223170610-d5e6a3e2c0ae" + v + "/dir/f.go" })
		}},
		{"relsrcpath-github-file", func(s *Snapshot, v string) { both(s, func(c *Call) { c.RelSrcPath = "github.com/user/proj@v1.2.3/" + v }) }},
		{"relsrcpath-golangx-proj", func(s *Snapshot, v string) { both(s, func(c *Call) { c.RelSrcPath = "golang.org/x/" + v + "@v0.1.0/f.go" }) }},
		{"relsrcpath-golangx-file", func(s *Snapshot, v string) { both(s, func(c *Call) { c.RelSrcPath = "golang.org/x/sys@v0.1.0/" + v }) }},
		{"relsrcpath-vendor", func(s *Snapshot, v string) { both(s, func(c *Call) { c.RelSrcPath = "example.com/a/vendor/github.com/user/" + v + "/f.go" }) }},
		{"relsrcpath-gopkg", func(s *Snapshot, v string) { both(s, func(c *Call) { c.RelSrcPath = "gopkg.in/yaml.v2@" + v + "/yaml.go" }) }},
		{"relsrcpath-stdlib", func(s *Snapshot, v string) {
			both(s, func(c *Call) { c.RelSrcPath = v; c.Location = Stdlib })
		}},
		{"processed-arg", func(s *Snapshot, v string) { both(s, func(c *Call) { c.Args.Processed = []string{v, "2"} }) }},
		{"arg-name", func(s *Snapshot, v string) { both(s, func(c *Call) { c.Args.Values[0].Name = v }) }},
		{"nested-arg-name", func(s *Snapshot, v string) { call(s, 2, 0).Args.Values[0].Fields.Values[0].Name = v }},
		{"creator.func.name", func(s *Snapshot, v string) { cr(s, 0).Func.Name = v; cr(s, 1).Func.Name = v }},
		{"creator.func.dirname", func(s *Snapshot, v string) { cr(s, 0).Func.DirName = v; cr(s, 1).Func.DirName = v }},
		{"creator.srcname", func(s *Snapshot, v string) { cr(s, 0).SrcName = v; cr(s, 1).SrcName = v }},
		{"creator.remotesrcpath", func(s *Snapshot, v string) { cr(s, 0).RemoteSrcPath = v; cr(s, 1).RemoteSrcPath = v }},
		{"creator.importpath", func(s *Snapshot, v string) { cr(s, 0).ImportPath = v; cr(s, 1).ImportPath = v }},
		{"snapshot.localgoroot", func(s *Snapshot, v string) { s.LocalGOROOT = v }},
		{"snapshot.remotegoroot", func(s *Snapshot, v string) { s.RemoteGOROOT = v }},
		{"snapshot.localgopaths", func(s *Snapshot, v string) { s.LocalGOPATHs = []string{"/gp", v} }},
		{"snapshot.localgomods-key", func(s *Snapshot, v string) { s.LocalGomods = map[string]string{v: "example.com/m", "/m2": "example.com/m2"} }},
		{"snapshot.localgomods-value", func(s *Snapshot, v string) { s.LocalGomods = map[string]string{"/m": v} }},
	}
}

func c17Base(race bool) *Snapshot {
	mk := func(fn, file string, line int, args Args, loc Location) Call {
		c := mkCall(fn, file, line, args)
		c.Location = loc
		return c
	}
	s := &Snapshot{LocalGOROOT: "/goroot", RemoteGOROOT: "/remote/goroot", LocalGOPATHs: []string{"/gp"}}
	g := func(id int, exported string) *Goroutine {
		gr := &Goroutine{ID: id}
		gr.State = "chan receive"
		gr.SleepMin, gr.SleepMax = 2, 5
		gr.Stack.Calls = []Call{
			mk("example.com/p."+exported, "/remote/gp/src/example.com/p/file.go", 10, Args{Values: []Arg{v(7), v(ptr1 + uint64(id)*16)}}, GOPATH),
			mk("main.main", "/remote/m/main.go", 20, Args{}, GoMod),
			mk("net/http.(*Server).Serve", "/remote/goroot/src/net/http/server.go", 30, Args{Values: []Arg{v(ptr2)}}, Stdlib),
		}
		gr.Stack.Calls[0].LocalSrcPath = "/gp/src/example.com/p/file.go"
		gr.Stack.Calls[0].RelSrcPath = "example.com/p/file.go"
		gr.Stack.Calls[2].RelSrcPath = "net/http/server.go"
		gr.Stack.Calls[2].LocalSrcPath = "/goroot/src/net/http/server.go"
		gr.CreatedBy.Calls = []Call{mk("main.start", "/remote/m/main.go", 5, Args{}, GoMod)}
		return gr
	}
	g0, g1 := g(1, "Exported"), g(2, "Exported")
	g0.First = true
	g1.Locked = true
	g2 := &Goroutine{ID: 3}
	g2.State = "select"
	g2.Stack.Elided = true
	g2.Stack.Calls = []Call{mk("main.deep", "/remote/m/deep.go", 7, Args{Values: []Arg{agg(v(1), agg(v(ptr1))), {IsOffsetTooLarge: true}}, Elided: true}, LocationUnknown)}
	s.Goroutines = []*Goroutine{g0, g1, g2}
	if race {
		for i, gr := range s.Goroutines {
			gr.RaceAddr = 0xc000014100
			gr.RaceWrite = i == 0
			gr.SleepMin, gr.SleepMax, gr.Locked = 0, 0, false
		}
	}
	return s
}

// ---- a small HTML tokenizer ---------------------------------------------------

type htmlTok struct {
	kind  string // "start", "end", "text", "comment", "doctype"
	name  string
	attrs map[string]string
	text  string
}

func tokenizeHTML(doc string) (toks []htmlTok, err string) {
	i := 0
	n := len(doc)
	rawUntil := ""
	for i < n {
		if rawUntil != "" {
			j := strings.Index(strings.ToLower(doc[i:]), "</"+rawUntil)
			if j < 0 {
				return toks, "unterminated <" + rawUntil + ">"
			}
			toks = append(toks, htmlTok{kind: "text", text: doc[i : i+j]})
			i += j
			rawUntil = ""
			continue
		}
		if doc[i] != '<' {
			j := strings.IndexByte(doc[i:], '<')
			if j < 0 {
				j = n - i
			}
			toks = append(toks, htmlTok{kind: "text", text: doc[i : i+j]})
			i += j
			continue
		}
		if strings.HasPrefix(doc[i:], "<!--") {
			j := strings.Index(doc[i+4:], "-->")
			if j < 0 {
				return toks, "unterminated comment"
			}
			toks = append(toks, htmlTok{kind: "comment", text: doc[i+4 : i+4+j]})
			i += 4 + j + 3
			continue
		}
		if strings.HasPrefix(doc[i:], "<!") {
			j := strings.IndexByte(doc[i:], '>')
			if j < 0 {
				return toks, "unterminated declaration"
			}
			toks = append(toks, htmlTok{kind: "doctype", text: doc[i : i+j+1]})
			i += j + 1
			continue
		}
		// tag
		j := i + 1
		end := false
		if j < n && doc[j] == '/' {
			end = true
			j++
		}
		k := j
		for k < n && (isAlnum(doc[k])) {
			k++
		}
		if k == j {
			// a lone '<' in text
			toks = append(toks, htmlTok{kind: "text", text: "<"})
			i++
			continue
		}
		name := strings.ToLower(doc[j:k])
		attrs := map[string]string{}
		for {
			for k < n && (doc[k] == ' ' || doc[k] == '\n' || doc[k] == '\t' || doc[k] == '\r' || doc[k] == '/') {
				k++
			}
			if k >= n {
				return toks, "unterminated tag <" + name
			}
			if doc[k] == '>' {
				k++
				break
			}
			a := k
			for k < n && doc[k] != '=' && doc[k] != '>' && doc[k] != ' ' && doc[k] != '\n' && doc[k] != '\t' && doc[k] != '/' {
				k++
			}
			an := strings.ToLower(doc[a:k])
			val := ""
			if k < n && doc[k] == '=' {
				k++
				if k < n && (doc[k] == '"' || doc[k] == '\'') {
					q := doc[k]
					e := strings.IndexByte(doc[k+1:], q)
					if e < 0 {
						return toks, "unterminated attribute value in <" + name
					}
					val = doc[k+1 : k+1+e]
					k += e + 2
				} else {
					b := k
					for k < n && doc[k] != ' ' && doc[k] != '>' && doc[k] != '\n' && doc[k] != '\t' {
						k++
					}
					val = doc[b:k]
				}
			}
			attrs[an] = html.UnescapeString(val)
		}
		if end {
			toks = append(toks, htmlTok{kind: "end", name: name})
		} else {
			toks = append(toks, htmlTok{kind: "start", name: name, attrs: attrs})
			if name == "style" || name == "script" {
				rawUntil = name
			}
		}
		i = k
	}
	return toks, ""
}

func isAlnum(b byte) bool {
	return b >= 'a' && b <= 'z' || b >= 'A' && b <= 'Z' || b >= '0' && b <= '9'
}

func skeleton(toks []htmlTok) string {
	var b strings.Builder
	for _, t := range toks {
		switch t.kind {
		case "start":
			var an []string
			for a := range t.attrs {
				an = append(an, a)
			}
			sort.Strings(an)
			fmt.Fprintf(&b, "<%s %s>", t.name, strings.Join(an, ","))
		case "end":
			fmt.Fprintf(&b, "</%s>", t.name)
		case "comment":
			b.WriteString("<!---->")
		}
	}
	return b.String()
}

var c17AllowedAttrs = map[string]bool{"class": true, "href": true, "id": true, "charset": true, "name": true, "content": true, "rel": true, "type": true}

func renderDoc(s *Snapshot, aggregated bool) (doc string, err error, panicked string) {
	defer func() {
		if e := recover(); e != nil {
			panicked = fmt.Sprint(e)
		}
	}()
	var b bytes.Buffer
	if aggregated {
		err = s.Aggregate(AnyPointer).ToHTML(&b, template.HTML(""))
	} else {
		err = s.ToHTML(&b, template.HTML(""))
	}
	return b.String(), err, ""
}

func c17Check(posIdx []int, payIdx []int, race, aggregated bool, key string) *h.Viol {
	positions := c17Positions()
	build := func(hostile bool) *Snapshot {
		s := c17Base(race)
		for k, pi := range posIdx {
			val := fmt.Sprintf("MARKER%dQ", payIdx[k]) // equal payloads get equal markers
			if hostile {
				val = c17Payloads[payIdx[k]]
			}
			positions[pi].set(s, val)
		}
		return s
	}
	var names []string
	for k, pi := range posIdx {
		names = append(names, fmt.Sprintf("%s=%q", positions[pi].name, trunc(c17Payloads[payIdx[k]])))
	}
	mk := func(cat, msg string) *h.Viol {
		return &h.Viol{Fingerprint: "C17/" + cat, Summary: fmt.Sprintf("%s (race=%v aggregated=%v): %s", strings.Join(names, " "), race, aggregated, msg), Key: key, Kind: "html"}
	}
	hs := build(true)
	hdoc, herr, hp := renderDoc(hs, aggregated)
	bdoc, berr, bp := renderDoc(build(false), aggregated)
	if hp != "" || bp != "" {
		return mk("panic", "ToHTML panicked: "+hp+bp)
	}
	if herr != nil || berr != nil {
		return mk("render-error", fmt.Sprintf("ToHTML returned %v / %v", herr, berr))
	}
	ht, e1 := tokenizeHTML(hdoc)
	bt, e2 := tokenizeHTML(bdoc)
	if e1 != "" || e2 != "" {
		return mk("malformed-document", "tokenizer: "+e1+e2)
	}
	hsk, bsk := skeleton(ht), skeleton(bt)
	if hsk != bsk {
		// locate the first difference
		i := 0
		for i < len(hsk) && i < len(bsk) && hsk[i] == bsk[i] {
			i++
		}
		from := i - 60
		if from < 0 {
			from = 0
		}
		v := mk("markup-injected:"+positions[posIdx[0]].name, fmt.Sprintf("the element/attribute skeleton of the document differs from that of its benign twin near %q vs %q", trunc(hsk[from:min(len(hsk), i+80)]), trunc(bsk[from:min(len(bsk), i+80)])))
		v.Observed = trunc(hdoc)
		return v
	}
	for _, t := range ht {
		if t.kind != "start" {
			continue
		}
		for a, val := range t.attrs {
			if !c17AllowedAttrs[a] {
				return mk("foreign-attribute:"+a, fmt.Sprintf("attribute %q on <%s> is not one of the template's", a, t.name))
			}
			if strings.HasPrefix(a, "on") || a == "style" || a == "srcdoc" {
				return mk("event-attribute:"+a, "event/style attribute in the document")
			}
			if a == "href" || a == "src" {
				lv := strings.ToLower(strings.TrimSpace(val))
				if !strings.HasPrefix(lv, "data:image/") && (strings.Count(lv, "#") > 1 || strings.Contains(lv, "?") || strings.ContainsAny(val, " <>\"'`")) {
					culprit := positions[posIdx[0]].name
					for k, pi := range posIdx {
						if strings.Contains(val, c17Payloads[payIdx[k]]) && strings.Contains(positions[pi].name, "srcpath") || strings.Contains(positions[pi].name, "importpath") && k > 0 {
							culprit = positions[pi].name
						}
					}
					return mk("link-not-url-escaped:"+culprit, fmt.Sprintf("link target %q on <%s> carries dump text that is not URL-escaped (query/fragment/space/quote characters)", trunc(val), t.name))
				}
				if lv != "" && !strings.HasPrefix(lv, "https://") && !strings.HasPrefix(lv, "file:///") && !strings.HasPrefix(lv, "data:image/") {
					return mk("link-scheme:"+positions[posIdx[0]].name, fmt.Sprintf("link target %q on <%s> has no fixed https:/file:/data:image scheme", trunc(val), t.name))
				}
			}
		}
	}
	// completeness on the twin structure: one h1 per bucket/goroutine, one row per frame
	nH1, nRows := 0, 0
	inStack := false
	for _, t := range ht {
		if t.kind == "start" && t.name == "h1" {
			nH1++
		}
		if t.kind == "start" && t.name == "table" {
			inStack = t.attrs["class"] == "stack"
		}
		if t.kind == "end" && t.name == "table" {
			inStack = false
		}
		if t.kind == "start" && t.name == "tr" && inStack {
			nRows++
		}
	}
	wantH1, wantRows := 0, 0
	if aggregated {
		a := hs.Aggregate(AnyPointer)
		wantH1 = len(a.Buckets)
		for _, b := range a.Buckets {
			wantRows += len(b.Stack.Calls)
			if b.Stack.Elided {
				wantRows += 2
			}
		}
	} else {
		wantH1 = len(hs.Goroutines)
		for _, g := range hs.Goroutines {
			wantRows += len(g.Stack.Calls)
			if g.Stack.Elided {
				wantRows += 2
			}
		}
	}
	if nH1 != wantH1 {
		return mk("missing-bucket-or-goroutine", fmt.Sprintf("%d headings for %d buckets/goroutines", nH1, wantH1))
	}
	if nRows != wantRows {
		return mk("missing-frame", fmt.Sprintf("%d stack rows for %d frames (+2 per elided stack)", nRows, wantRows))
	}
	return nil
}

func TestVerifC17(t *testing.T) {
	r := h.Start("C17")
	defer r.Finish(func(s string) { t.Error(s) })
	positions := c17Positions()
	r.Set("rule", fmt.Sprintf("%d payloads (markup, attribute break-outs, javascript:/data: URLs, template syntax, control characters, 2000 characters) x %d string field positions of directly constructed snapshots (state, function reference parts, paths, creator, RelSrcPath shapes for github.com / golang.org/x / vendor / gopkg.in / pseudo-versions / stdlib, processed arguments, argument names, snapshot roots and module maps): every position alone and every pair of positions (quick: same payload in both; thorough: all payload pairs) x {aggregated, per-goroutine} x {goroutine dump, race}; oracle: ToHTML returns nil, the document tokenises to the same element/attribute-name skeleton as its benign twin, attribute names are the template's, every href is empty or https:// / file:/// / data:image/, one heading per bucket/goroutine and one row per frame. non-trivial = at least one payload placed; distinct = (positions, payloads, kind)", len(c17Payloads), len(positions)))
	r.Set("assumptions", []string{"the tokenizer (tags, quoted/unquoted attributes, comments, raw text in <style>/<script>) is a conservative approximation of an HTML parser", "completeness is counted on headings and stack-table rows; the template shows only the first creator frame"})
	if rv := r.ReplayFile(); rv != nil {
		t.Logf("replay %s: %s\nobserved document: %s", rv.Key, rv.Summary, rv.Observed)
		return
	}
	seq := 0
	run := func(pos, pay []int) {
		for _, race := range []bool{false, true} {
			for _, aggd := range []bool{true, false} {
				if race && aggd {
					continue
				}
				seq++
				if !r.MineIdx(seq) || r.Expired() {
					continue
				}
				race, aggd := race, aggd
				key := fmt.Sprintf("pos%v pay%v race=%v agg=%v", pos, pay, race, aggd)
				v := r.Check(func() *h.Viol { return c17Check(pos, pay, race, aggd, key) })
				out := "ok"
				if v != nil {
					out = v.Fingerprint
				}
				r.Record(key, true, fmt.Sprintf("%s race=%v agg=%v n=%d", out, race, aggd, len(pos)))
				if seq%2003 == 0 {
					r.Sample(map[string]any{"positions": func() []string {
						var o []string
						for _, p := range pos {
							o = append(o, positions[p].name)
						}
						return o
					}(), "payloads": func() []string {
						var o []string
						for _, p := range pay {
							o = append(o, trunc(c17Payloads[p]))
						}
						return o
					}(), "race": race, "aggregated": aggd})
				}
			}
		}
	}
	for p := range positions {
		for y := range c17Payloads {
			run([]int{p}, []int{y})
		}
	}
	for p := range positions {
		for q := p + 1; q < len(positions); q++ {
			for y := range c17Payloads {
				if r.Thorough() {
					for z := range c17Payloads {
						run([]int{p, q}, []int{y, z})
					}
				} else {
					run([]int{p, q}, []int{y, y})
				}
			}
		}
	}
}
