//go:build verif

package stack

// C18: path rebasing. A fixed scratch file tree (Go root, three GOPATHs with src
// and pkg/mod trees, two go.mod modules at different depths, a bare `go run`
// file); the explorer chooses which roots are configured, which remote roots are
// renamed, and which frames the dump references; ground truth comes from the
// layout.

import (
	"bytes"
	"fmt"
	"os"
	"path"
	"path/filepath"
	"strings"
	"testing"

	"github.com/maruel/panicparse/v2/internal/verifx/h"
)

type c18Kind struct {
	name   string
	root   string // "goroot", "gp1", "gp2", "gp3", "m1", "m2", "run", "testmain", "none"
	sub    string // "src", "pkg/mod", "" for modules
	rel    string // path relative to root/sub
	exists bool
	mod    string // module import path for module kinds
	fn     string // function reference printed in the dump
}

var c18Kinds = []c18Kind{
	{"stdlib-fmt", "goroot", "src", "fmt/print.go", true, "", "fmt.Println"},
	{"stdlib-http", "goroot", "src", "net/http/server.go", true, "", "net/http.(*Server).Serve"},
	{"stdlib-missing", "goroot", "src", "os/missing.go", false, "", "os.Missing"},
	{"stdlib-assembly", "goroot", "src", "runtime/asm_amd64.s", true, "", "runtime.asmcgocall"},
	{"gp1-src-c-file", "gp1", "src", "example.com/a/native.c", true, "", "example.com/a._Cfunc_native"},
	{"gp1-src-unparsable-go", "gp1", "src", "example.com/a/broken.go", true, "", "example.com/a.Broken"},
	{"gp1-src", "gp1", "src", "example.com/a/a.go", true, "", "example.com/a.A"},
	{"gp1-src-sub", "gp1", "src", "example.com/a/sub/s.go", true, "", "example.com/a/sub.S"},
	{"gp1-src-missing", "gp1", "src", "example.com/gone/g.go", false, "", "example.com/gone.G"},
	{"gp1-src-missing-same-dir", "gp1", "src", "example.com/a/0absent.go", false, "", "example.com/a.Absent"},
	{"stdlib-missing-same-dir", "goroot", "src", "fmt/aaa_absent.go", false, "", "fmt.Absent"},
	{"gp1-pkgmod-missing-same-dir", "gp1", "pkg/mod", "github.com/u/dep@v1.0.0/a_absent.go", false, "", "github.com/u/dep.Absent"},
	{"gp1-pkgmod", "gp1", "pkg/mod", "github.com/u/dep@v1.0.0/d.go", true, "", "github.com/u/dep.D"},
	{"gp1-pkgmod-inner", "gp1", "pkg/mod", "github.com/u/dep@v1.0.0/inner/i.go", true, "", "github.com/u/dep/inner.I"},
	{"gp2-src", "gp2", "src", "example.org/b/b.go", true, "", "example.org/b.B"},
	{"gp2-pkgmod", "gp2", "pkg/mod", "golang.org/x/sys@v0.1.0/unix/u.go", true, "", "golang.org/x/sys/unix.U"},
	{"gp3-src", "gp3", "src", "corp/c/c.go", true, "", "corp/c.C"},
	{"gp1-src-stdlib-lookalike-tail", "gp1", "src", "example.com/q/fmt/print.go", true, "", "example.com/q/fmt.Print"},
	{"m1-main", "m1", "", "main.go", true, "example.com/m1", "main.main"},
	{"m1-pkg", "m1", "", "pkg/p.go", true, "example.com/m1", "example.com/m1/pkg.P"},
	{"m1-pkg-deep", "m1", "", "pkg/deep/d.go", true, "example.com/m1", "example.com/m1/pkg/deep.D"},
	{"m1-missing-file", "m1", "", "pkg/absent.go", false, "example.com/m1", "example.com/m1/pkg.Absent"},
	{"m1-testmain-under-module", "m1", "", "pkg/_test/_testmain.go", false, "example.com/m1", "main.main"},
	{"m2", "m2", "", "x.go", true, "example.com/m2", "example.com/m2.X"},
	{"m1x-sibling-module", "m1x", "", "y.go", true, "example.com/m1x", "example.com/m1x.Y"},
	{"m1x-sibling-module-sub", "m1x", "", "lib/l.go", true, "example.com/m1x", "example.com/m1x/lib.L"},
	{"go-run-file", "run", "", "main.go", true, "main", "main.run"},
	{"testmain", "testmain", "", "example.com/p/_test/_testmain.go", false, "", "main.main"},
	{"testmain-bare", "testmain-other", "", "_test/_testmain.go", false, "", "main.main"},
	{"testmain-modern", "testmain-other", "", "_testmain.go", false, "", "main.main"},
	{"nowhere", "none", "", "/nowhere/dir/x.go", false, "", "nowhere/dir.X"},
	{"nowhere-under-slash-src", "none", "", "/src/app/cmd/main.go", false, "", "app/cmd.Main"},
	{"nowhere-under-slash-src-stdlib-name", "none", "", "/src/fmt/print.go", false, "", "fmt.Println"},
	{"tail-exists-no-src-component", "none", "", "/x/fmt/print.go", false, "", "fmt.Println"},
	{"tail-exists-short-prefix", "none", "", "/net/http/server.go", false, "", "net/http.Serve"},
	{"under-remote-gopath-no-src", "gp1", "other", "example.com/a/a.go", false, "", "example.com/a.A2"},
	{"sibling-of-module", "none", "", "", false, "", "example.com/m1y.Y"}, // <root>/m1y/y.go: extends a module directory name, no such directory
}

func c18Tree(root string) {
	files := map[string]string{
		"goroot/src/fmt/print.go":                        "package fmt\n",
		"goroot/src/net/http/server.go":                  "package http\n",
		"goroot/src/runtime/asm_amd64.s":                 "TEXT ·asmcgocall(SB),NOSPLIT,$0-20\n\tRET\n",
		"gp1/src/example.com/a/native.c":                 "int native(int a) { return a; }\n",
		"gp1/src/example.com/a/broken.go":                "package a\n\nfunc Broken(a int {\n",
		"gp1/src/example.com/a/a.go":                     "package a\n",
		"gp1/src/example.com/a/sub/s.go":                 "package sub\n",
		"gp1/src/example.com/q/fmt/print.go":             "package fmt\n",
		"gp1/pkg/mod/github.com/u/dep@v1.0.0/d.go":       "package dep\n",
		"gp1/pkg/mod/github.com/u/dep@v1.0.0/inner/i.go": "package inner\n",
		"gp2/src/example.org/b/b.go":                     "package b\n",
		"gp2/pkg/mod/golang.org/x/sys@v0.1.0/unix/u.go":  "package unix\n",
		"gp3/src/corp/c/c.go":                            "package c\n",
		"m1/go.mod":                                      "module example.com/m1\n\ngo 1.20\n",
		"m1/main.go":                                     "package main\n",
		"m1/pkg/p.go":                                    "package pkg\n",
		"m1/pkg/deep/d.go":                               "package deep\n",
		"deep/er/m2/go.mod":                              "module example.com/m2\r\n",
		"deep/er/m2/x.go":                                "package m2\n",
		"run/main.go":                                    "package main\n",
		"m1x/go.mod":                                     "module example.com/m1x\n",
		"m1x/y.go":                                       "package m1x\n",
		"m1x/lib/l.go":                                   "package lib\n",
	}
	for p, content := range files {
		full := filepath.Join(root, p)
		_ = os.MkdirAll(filepath.Dir(full), 0o755)
		_ = os.WriteFile(full, []byte(content), 0o644)
	}
}

type c18Cfg struct {
	goroot  bool
	gopaths []string
	renamed map[string]bool // goroot, gp1, gp2, gp3
	frames  []int
	creator int // kind index of the "created by" frame, -1: none
}

func (c c18Cfg) String() string {
	var fr []string
	for _, k := range c.frames {
		fr = append(fr, c18Kinds[k].name)
	}
	var rn []string
	for _, k := range []string{"goroot", "gp1", "gp2", "gp3"} {
		if c.renamed[k] {
			rn = append(rn, k)
		}
	}
	cr := "none"
	if c.creator >= 0 {
		cr = c18Kinds[c.creator].name
	}
	return fmt.Sprintf("goroot=%v gopaths=%v renamed=%v frames=%v creator=%s", c.goroot, c.gopaths, rn, fr, cr)
}

func c18LocalRoot(root, name string) string {
	switch name {
	case "m2":
		return root + "/deep/er/m2"
	}
	return root + "/" + name
}

func (c c18Cfg) remoteRoot(root, name string) string {
	if c.renamed[name] {
		return "/remote/ci/" + name
	}
	return c18LocalRoot(root, name)
}

func (c c18Cfg) remotePath(root string, k *c18Kind) string {
	switch k.root {
	case "none":
		if k.name == "sibling-of-module" {
			return root + "/m1y/y.go"
		}
		return k.rel
	case "testmain", "testmain-other":
		return k.rel
	case "m1", "m2", "m1x", "run":
		return c18LocalRoot(root, k.root) + "/" + k.rel
	}
	return c.remoteRoot(root, k.root) + "/" + k.sub + "/" + k.rel
}

type c18Want struct {
	loc   Location
	local string
	rel   string
	imp   string // "" = not checked
	must  bool   // the statement demands this mapping (file exists locally / no detected root)
}

// expect computes the ground truth for every frame of the configuration.
func (c c18Cfg) expect(root string) (wants []c18Want, remoteGOROOT string, remoteGOPATHs map[string]string, gomods map[string]string) {
	listed := map[string]bool{}
	for _, g := range c.gopaths {
		listed[g] = true
	}
	detected := map[string]bool{}
	for _, ki := range c.frames {
		k := &c18Kinds[ki]
		if !k.exists {
			continue
		}
		switch k.root {
		case "goroot":
			if c.goroot {
				detected["goroot"] = true
			}
		case "gp1", "gp2", "gp3":
			if listed[k.root] && (k.sub == "src" || k.sub == "pkg/mod") {
				detected[k.root] = true
			}
		}
	}
	remoteGOPATHs = map[string]string{}
	gomods = map[string]string{}
	if detected["goroot"] {
		remoteGOROOT = c.remoteRoot(root, "goroot")
	}
	for _, g := range []string{"gp1", "gp2", "gp3"} {
		if detected[g] {
			remoteGOPATHs[c.remoteRoot(root, g)] = c18LocalRoot(root, g)
		}
	}
	all := append([]int{}, c.frames...)
	if c.creator >= 0 {
		all = append(all, c.creator)
	}
	for pos, ki := range all {
		isCreator := pos >= len(c.frames)
		k := &c18Kinds[ki]
		w := c18Want{}
		if isCreator {
			// the creator frame does not take part in root detection: it is mapped only
			// through roots detected from the stack frames
			inStack := func(rootName string) bool {
				for _, kj := range c.frames {
					if c18Kinds[kj].root == rootName {
						return true
					}
				}
				return false
			}
			switch k.root {
			case "m1", "m2", "m1x", "run":
				if !inStack(k.root) {
					wants = append(wants, c18Want{must: !accidentalRunDir(c, root, k)})
					continue
				}
			}
		}
		// A file that exists locally at its remote path although it lies under no detected
		// root is taken for a `go run` file (documented behaviour): only the general
		// invariants are checked for it, and the module map is not compared.
		accidental := !c.renamed[k.root] && !detected[k.root] && (k.root == "goroot" || strings.HasPrefix(k.root, "gp"))
		if accidental && !k.exists {
			// an absent file next to such a `go run` file falls under its directory root
			accidental = false
			for _, kj := range c.frames {
				o := &c18Kinds[kj]
				if o.exists && o.root == k.root && o.sub == k.sub && strings.HasPrefix(k.rel, path.Dir(o.rel)+"/") {
					accidental = true
				}
			}
		}
		if accidental && isCreator {
			// not probed at all (the creator is not in the file list): stays unknown unless a
			// stack frame made its directory a go-run root
			wants = append(wants, c18Want{})
			continue
		}
		if accidental {
			gomods["*"] = "*"
			wants = append(wants, w)
			continue
		}
		switch k.root {
		case "goroot":
			if detected["goroot"] {
				w = c18Want{Stdlib, c18LocalRoot(root, "goroot") + "/src/" + k.rel, k.rel, path.Dir(k.rel), k.exists}
			} else {
				w.must = true
			}
		case "gp1", "gp2", "gp3":
			switch {
			case detected[k.root] && k.sub == "src":
				w = c18Want{GOPATH, c18LocalRoot(root, k.root) + "/src/" + k.rel, k.rel, path.Dir(k.rel), k.exists}
			case detected[k.root] && k.sub == "pkg/mod":
				w = c18Want{GoPkg, c18LocalRoot(root, k.root) + "/pkg/mod/" + k.rel, k.rel, "", k.exists}
			default:
				// under no detected root (not listed, nothing found locally, or not below src / pkg/mod)
				w.must = true
			}
		case "m1", "m2", "m1x":
			if strings.HasSuffix(k.rel, "_test/_testmain.go") {
				// the go-test generated main stays standard library wherever its path lies
				// (its module is still detected through the go.mod above it)
				if !isCreator {
					gomods[c18LocalRoot(root, k.root)] = k.mod
				}
				w = c18Want{loc: Stdlib, must: true}
				break
			}
			mr := c18LocalRoot(root, k.root)
			if !isCreator {
				gomods[mr] = k.mod
			}
			imp := k.mod
			if d := path.Dir(k.rel); d != "." {
				imp += "/" + d
			}
			w = c18Want{GoMod, mr + "/" + k.rel, k.rel, imp, k.exists}
		case "run":
			mr := c18LocalRoot(root, "run")
			if !isCreator {
				gomods[mr] = "main"
			}
			w = c18Want{GoMod, mr + "/" + k.rel, k.rel, "main", true}
		case "testmain":
			w = c18Want{loc: Stdlib, must: true}
		case "none":
			w.must = true
		case "testmain-other":
			// path shapes the anchored mechanism does not name: no demand
		}
		wants = append(wants, w)
	}
	return
}

// accidentalRunDir: a stack frame exists locally in the same directory tree, so that
// directory may have been registered as a go-run root.
func accidentalRunDir(c c18Cfg, root string, k *c18Kind) bool { return false }

// c18Check: the mapping is decided by path guessing; with source analysis on as well
// (the stage that opens the mapped files) it must come out the same.
func c18Check(root string, c c18Cfg, key string) *h.Viol {
	if v := c18CheckOpts(root, c, key, false); v != nil {
		return v
	}
	if v := c18CheckOpts(root, c, key, true); v != nil {
		v.Fingerprint = strings.Replace(v.Fingerprint, "C18/", "C18/analysis-on/", 1)
		v.Summary = "with source analysis on: " + v.Summary
		return v
	}
	return nil
}

func c18CheckOpts(root string, c c18Cfg, key string, analyse bool) *h.Viol {
	var b strings.Builder
	b.WriteString("goroutine 1 [running]:\n")
	for _, ki := range c.frames {
		k := &c18Kinds[ki]
		fmt.Fprintf(&b, "%s(0x1)\n\t%s:%d +0x1\n", k.fn, c.remotePath(root, k), 10+ki)
	}
	if c.creator >= 0 {
		k := &c18Kinds[c.creator]
		fmt.Fprintf(&b, "created by %s in goroutine 5\n\t%s:%d +0x1\n", k.fn, c.remotePath(root, k), 99)
	}
	in := []byte(b.String())
	opts := &Opts{GuessPaths: true, AnalyzeSources: analyse}
	if c.goroot {
		opts.LocalGOROOT = c18LocalRoot(root, "goroot")
	}
	for _, g := range c.gopaths {
		opts.LocalGOPATHs = append(opts.LocalGOPATHs, c18LocalRoot(root, g))
	}
	mk := func(cat, msg string) *h.Viol {
		v := &h.Viol{Fingerprint: "C18/" + cat, Summary: c.String() + ": " + msg, Key: key, Kind: "layout"}
		v.SetInput([]byte(strings.ReplaceAll(string(in), root, "$ROOT")))
		return v
	}
	res := scanOnce(bytes.NewReader(in), opts)
	if res.panicked != "" {
		return mk("panic:"+firstLine(res.panicked)+"@"+panicSite(res.panicked), "ScanSnapshot panicked: "+firstLine(res.panicked))
	}
	if res.snap == nil || len(res.snap.Goroutines) != 1 || len(res.snap.Goroutines[0].Stack.Calls) != len(c.frames) {
		return mk("parse", "the dump was not parsed into one goroutine with all frames")
	}
	wants, wantGOROOT, wantGOPATHs, wantGomods := c.expect(root)
	s := res.snap
	for i, w := range wants {
		var call *Call
		var k *c18Kind
		if i < len(c.frames) {
			call = &s.Goroutines[0].Stack.Calls[i]
			k = &c18Kinds[c.frames[i]]
		} else {
			if len(s.Goroutines[0].CreatedBy.Calls) != 1 {
				return mk("creator-missing", "the created-by frame was not parsed")
			}
			call = &s.Goroutines[0].CreatedBy.Calls[0]
			k = &c18Kinds[c.creator]
		}
		// general invariants
		if call.LocalSrcPath != "" && !strings.HasSuffix(call.LocalSrcPath, call.RelSrcPath) {
			return mk("local-not-ending-with-rel:"+k.name, fmt.Sprintf("frame %s: LocalSrcPath %q does not end with RelSrcPath %q", k.name, call.LocalSrcPath, call.RelSrcPath))
		}
		if call.RelSrcPath != "" && !strings.HasSuffix(call.RemoteSrcPath, call.RelSrcPath) {
			return mk("rel-not-suffix-of-remote:"+k.name, fmt.Sprintf("frame %s: RelSrcPath %q is not a suffix of the remote path %q", k.name, call.RelSrcPath, call.RemoteSrcPath))
		}
		if !w.must {
			continue
		}
		if call.Location != w.loc {
			tag := ""
			if i >= len(c.frames) {
				tag = "creator:"
			}
			return mk("location:"+tag+k.name, fmt.Sprintf("frame %s%s (%s): Location=%s want %s", tag, k.name, call.RemoteSrcPath, call.Location, w.loc))
		}
		if k.root == "testmain" || strings.HasSuffix(k.rel, "_test/_testmain.go") {
			continue
		}
		if call.LocalSrcPath != w.local {
			return mk("localsrcpath:"+k.name, fmt.Sprintf("frame %s: LocalSrcPath=%q want %q", k.name, call.LocalSrcPath, w.local))
		}
		if call.RelSrcPath != w.rel {
			return mk("relsrcpath:"+k.name, fmt.Sprintf("frame %s: RelSrcPath=%q want %q", k.name, call.RelSrcPath, w.rel))
		}
		if w.imp != "" && call.ImportPath != w.imp {
			return mk("importpath:"+k.name, fmt.Sprintf("frame %s: ImportPath=%q want %q", k.name, call.ImportPath, w.imp))
		}
		if w.local != "" && k.exists {
			if _, err := os.Stat(call.LocalSrcPath); err != nil {
				return mk("local-file-missing:"+k.name, "resolved local path does not exist")
			}
		}
	}
	if s.RemoteGOROOT != wantGOROOT {
		return mk("remote-goroot", fmt.Sprintf("RemoteGOROOT=%q want %q", s.RemoteGOROOT, wantGOROOT))
	}
	if fmt.Sprint(s.RemoteGOPATHs) != fmt.Sprint(wantGOPATHs) {
		return mk("remote-gopaths", fmt.Sprintf("RemoteGOPATHs=%v want %v", s.RemoteGOPATHs, wantGOPATHs))
	}
	if _, skip := wantGomods["*"]; !skip && fmt.Sprint(s.LocalGomods) != fmt.Sprint(wantGomods) {
		return mk("local-gomods", fmt.Sprintf("LocalGomods=%v want %v", s.LocalGomods, wantGomods))
	}
	// each detected remote root is a prefix of the frames it explains
	for i := range c.frames {
		call := &s.Goroutines[0].Stack.Calls[i]
		switch call.Location {
		case GOPATH, GoPkg:
			ok := false
			for rr := range s.RemoteGOPATHs {
				if strings.HasPrefix(call.RemoteSrcPath, rr+"/") {
					ok = true
				}
			}
			if !ok {
				return mk("root-not-prefix", fmt.Sprintf("frame %s is classed %s but no detected remote GOPATH prefixes it", call.RemoteSrcPath, call.Location))
			}
		case GoMod:
			ok := false
			for rr := range s.LocalGomods {
				if strings.HasPrefix(call.RemoteSrcPath, rr+"/") {
					ok = true
				}
			}
			if !ok {
				return mk("root-not-prefix", fmt.Sprintf("frame %s is classed GoMod but no detected module root prefixes it", call.RemoteSrcPath))
			}
		}
	}
	if c.creator >= 0 {
		return nil
	}
	// The same frames in a race report, where creation sections are whole stacks: the
	// frames are the operation stack of both goroutines (they detect the roots exactly as
	// above); the creation stack of the first goroutine is the same frames behind a frame
	// that lies under no root, the second's is the frames in reverse order. Every frame of
	// a creation stack must be mapped exactly like its twin in the operation stack.
	var rb strings.Builder
	frameLines := func(order []int) {
		for _, ki := range order {
			k := &c18Kinds[ki]
			fmt.Fprintf(&rb, "  %s()\n      %s:%d +0x1\n", k.fn, c.remotePath(root, k), 10+ki)
		}
	}
	rev := make([]int, len(c.frames))
	for i, ki := range c.frames {
		rev[len(rev)-1-i] = ki
	}
	rb.WriteString("==================\nWARNING: DATA RACE\nRead at 0x00c000014100 by goroutine 7:\n")
	frameLines(c.frames)
	rb.WriteString("\nPrevious write at 0x00c000014100 by goroutine 8:\n")
	frameLines(c.frames)
	rb.WriteString("\nGoroutine 7 (running) created at:\n  nowhere/dir.Spawn()\n      /nowhere/dir/spawn.go:5 +0x1\n")
	frameLines(c.frames)
	rb.WriteString("\nGoroutine 8 (finished) created at:\n")
	frameLines(rev)
	rb.WriteString("==================\n")
	rin := []byte(rb.String())
	rres := scanOnce(bytes.NewReader(rin), opts)
	mkr := func(cat, msg string) *h.Viol {
		v := &h.Viol{Fingerprint: "C18/race/" + cat, Summary: c.String() + " as a race report: " + msg, Key: key, Kind: "layout"}
		v.SetInput([]byte(strings.ReplaceAll(string(rin), root, "$ROOT")))
		return v
	}
	if rres.panicked != "" {
		return mkr("panic:"+firstLine(rres.panicked), "ScanSnapshot panicked: "+firstLine(rres.panicked))
	}
	if rres.snap == nil || len(rres.snap.Goroutines) != 2 {
		return mkr("parse", "the race report was not parsed into two goroutines")
	}
	same := func(a, b *Call) bool {
		return a.Location == b.Location && a.LocalSrcPath == b.LocalSrcPath && a.RelSrcPath == b.RelSrcPath && a.ImportPath == b.ImportPath
	}
	for gi, g := range rres.snap.Goroutines {
		if len(g.Stack.Calls) != len(c.frames) {
			return mkr("parse", "operation stack not parsed")
		}
		for i := range c.frames {
			// the operation stacks are mapped like the goroutine dump's stack
			if !same(&g.Stack.Calls[i], &s.Goroutines[0].Stack.Calls[i]) {
				return mkr("operation-frame-differs-from-dump:"+c18Kinds[c.frames[i]].name, fmt.Sprintf("goroutine %d frame %d (%s) is mapped differently than the same frame of a goroutine dump", gi, i, g.Stack.Calls[i].RemoteSrcPath))
			}
		}
		want := len(c.frames)
		off := 0
		if gi == 0 {
			want, off = want+1, 1
		}
		if len(g.CreatedBy.Calls) != want {
			return mkr("parse", fmt.Sprintf("creation stack of goroutine %d has %d frames, want %d", gi, len(g.CreatedBy.Calls), want))
		}
		if gi == 0 && (g.CreatedBy.Calls[0].Location != LocationUnknown || g.CreatedBy.Calls[0].LocalSrcPath != "") {
			return mkr("nowhere-frame-mapped", "the creation frame under no root was given a location")
		}
		for i := range c.frames {
			twin := i
			if gi == 1 {
				twin = len(c.frames) - 1 - i
			}
			cf := &g.CreatedBy.Calls[off+i]
			if !same(cf, &g.Stack.Calls[twin]) {
				return mkr("creation-frame-differs-from-stack-twin:"+c18Kinds[c.frames[twin]].name, fmt.Sprintf("goroutine %d creation frame %d (%s): Location=%s local=%q rel=%q, the same frame in the operation stack has Location=%s local=%q rel=%q", gi, off+i, cf.RemoteSrcPath, cf.Location, cf.LocalSrcPath, cf.RelSrcPath, g.Stack.Calls[twin].Location, g.Stack.Calls[twin].LocalSrcPath, g.Stack.Calls[twin].RelSrcPath))
			}
		}
	}
	return nil
}

func TestVerifC18(t *testing.T) {
	r := h.Start("C18")
	defer r.Finish(func(s string) { t.Error(s) })
	root, err := os.MkdirTemp(os.Getenv("VERIF_SCRATCH"), "c18")
	if err != nil {
		t.Fatal(err)
	}
	if rp, err := filepath.EvalSymlinks(root); err == nil {
		root = rp
	}
	defer os.RemoveAll(root)
	c18Tree(root)
	maxFrames := r.Pick(2, 3)
	r.Set("rule", fmt.Sprintf("a fixed scratch tree (Go root, 3 GOPATHs with src and pkg/mod trees, 3 go.mod modules (two siblings at depth 1, one of whose names extends the other's, and one at depth 3), a bare go-run file); full product of the configuration (Go root configured or not x 6 GOPATH lists x every subset of {goroot, gp1, gp2} renamed on the remote side) x every sequence of <= %d frames from %d frame kinds (present/absent files under each root, the go-test main, paths under no root, paths whose tail exists locally but that lack the src component, a remote GOPATH path outside src, a sibling directory whose name extends a module directory); ground truth (class, local path, relative path, import path, detected roots) from the layout. non-trivial = at least one frame under a configured root; distinct = (configuration, frames)", maxFrames, len(c18Kinds)))
	r.Set("assumptions", []string{"ambiguous layouts are excluded: the same relative path under two roots, and a module nested in another module (exercised for determinism in C06)", "for a frame whose file is absent locally only the general invariants are demanded unless it lies under no detected root", "the import path of a module-cache frame is not checked (the statement does not say whether it carries the version)"})
	if rv := r.ReplayFile(); rv != nil {
		t.Logf("replay %s: %s\ninput:\n%s", rv.Key, rv.Summary, rv.Input())
		return
	}
	gopathLists := [][]string{{}, {"gp1"}, {"gp1", "gp2"}, {"gp2", "gp1"}, {"gp1", "gp2", "gp3"}, {"gp3"}}
	// the created-by frame rotates through: none, a path under no root, present files under each kind of root
	creators := []int{-1, kindIndex("nowhere"), -1, kindIndex("gp1-src"), kindIndex("stdlib-fmt"), -1, kindIndex("m1-pkg"), kindIndex("gp1-pkgmod"), kindIndex("tail-exists-no-src-component")}
	seq := 0
	var frameSeqs [][]int
	var rec func(cur []int)
	rec = func(cur []int) {
		if len(cur) > 0 {
			frameSeqs = append(frameSeqs, append([]int{}, cur...))
		}
		if len(cur) == maxFrames {
			return
		}
		for k := range c18Kinds {
			rec(append(cur, k))
		}
	}
	rec(nil)
	for _, goroot := range []bool{true, false} {
		for _, gl := range gopathLists {
			for mask := 0; mask < 8; mask++ {
				for _, fs := range frameSeqs {
					seq++
					if !r.MineIdx(seq) || r.Expired() {
						continue
					}
					cfg := c18Cfg{goroot: goroot, gopaths: gl, renamed: map[string]bool{"goroot": mask&1 != 0, "gp1": mask&2 != 0, "gp2": mask&4 != 0}, frames: fs, creator: creators[seq%len(creators)]}
					key := cfg.String()
					v := r.Check(func() *h.Viol { return c18Check(root, cfg, key) })
					out := "ok"
					if v != nil {
						out = v.Fingerprint
					}
					nt := false
					for _, k := range fs {
						if c18Kinds[k].root != "none" {
							nt = true
						}
					}
					r.Record(key, nt, out+fmt.Sprint(fs[0], goroot, len(gl)))
					if seq%3011 == 0 {
						r.Sample(map[string]any{"configuration": key})
					}
				}
			}
		}
	}
}

func kindIndex(name string) int {
	for i, k := range c18Kinds {
		if k.name == name {
			return i
		}
	}
	panic("no kind " + name)
}
