//go:build verif

package stack

// C10: truncation and read-failure tolerance: every byte offset of generated
// streams as the cut point x 6 end signals x deliveries.

import (
	"bytes"
	"errors"
	"fmt"
	"io"
	"os"
	"path/filepath"
	"regexp"
	"testing"

	"github.com/maruel/panicparse/v2/internal/verifx/gen"
	"github.com/maruel/panicparse/v2/internal/verifx/h"
)

var errSentinel = errors.New("verif: injected reader failure")

var reNameField = regexp.MustCompile(`Name:#\d+`)

// canonNoNames serialises goroutines with pointer pseudo-names blanked.
func canonNoNames(g *Goroutine) string {
	return reNameField.ReplaceAllString(canonGoroutine(g), "Name:")
}

type histCall struct {
	prefix             []byte
	snap               *Snapshot
	suffix             []byte
	err                error
	start              int // offset in the (cut) stream where the withheld region of this call starts
	end                int
	readerFailedDuring bool // the scripted reader delivered its (one-shot) failure during this call
}

// history runs the resume loop over a scripted reader until the stream is exhausted.
func history(sr *scriptReader, opts *Opts, maxCalls int) (calls []histCall, panicked string, lastErr error) {
	var suffix []byte
	consumedBefore := 0
	failedBefore := false
	for n := 0; n < maxCalls; n++ {
		in := io.MultiReader(bytes.NewReader(suffix), sr)
		res := scanOnce(in, opts)
		if res.panicked != "" {
			return calls, res.panicked, nil
		}
		end := sr.off - len(res.suffix)
		c := histCall{prefix: res.prefix, snap: res.snap, suffix: res.suffix, err: res.err, start: consumedBefore + len(res.prefix), end: end}
		c.readerFailedDuring = sr.failed && !failedBefore
		failedBefore = sr.failed
		calls = append(calls, c)
		lastErr = res.err
		consumedBefore = end
		suffix = res.suffix
		if res.err == io.EOF || res.err == errSentinel {
			return
		}
		if res.err != nil && len(res.suffix) == 0 && len(sr.unread()) == 0 {
			return
		}
	}
	return calls, "", errors.New("verif: resume loop did not terminate")
}

type c10Stream struct {
	name string
	// opts: nil = naming only; the analysed stream is scanned with path guessing and
	// source analysis on (its frames point at sources that exist)
	opts func() *Opts
	data []byte
	// goroutine end offsets per dump, from the generators: ends[d][i] = offset where the
	// text of goroutine i of dump d is complete.
	ends [][]int
}

// c10SrcRoot is the scratch source tree of the analysed stream ("" = not available).
var c10SrcRoot string

func c10Streams(thorough bool) []c10Stream {
	env := genEnv()
	var out []c10Stream
	addDump := func(name, before string, c fixedChooser, after string) {
		d := gen.GenDump(c, env)
		data := append(append([]byte(before), d.Bytes()...), after...)
		var ends []int
		for i := range d.Gs {
			sub := &gen.Dump{Gs: d.Gs[:i+1], F: d.F}
			sub.F.NoFinalNL = false
			ends = append(ends, len(before)+len(sub.Bytes()))
		}
		out = append(out, c10Stream{name: name, data: data, ends: [][]int{ends}})
	}
	addDump("three-goroutines", "panic: boom\n\n", fixedChooser{"goroutines": 2, "g0.stack-shape": 1, "g0.creator": 2, "g0.f0.argshape": 9, "g1.stack-shape": 6, "g1.minutes": 2, "g2.locked": 1, "g2.creator": 1}, "exit status 2\n")
	addDump("crlf-annotated", "log line\r\n", fixedChooser{"crlf": 1, "goroutines": 1, "header-annotation": 1, "frame-annotation": 2, "g0.f0.sym": 17, "g1.stack-shape": 7}, "")
	addDump("indented-elided", "", fixedChooser{"indent": 2, "goroutines": 1, "g0.stack-shape": 2, "g1.f0.argshape": 14, "g1.f0.sym": 4}, "  trailing\n")
	addDump("unterminated", "x\n", fixedChooser{"no-final-newline": 1, "g0.stack-shape": 1, "g0.f1.argshape": 20}, "")
	addRace := func(name, before string, c fixedChooser, after string) {
		rc, _ := gen.GenRace(c)
		data := append(append([]byte(before), rc.Bytes()...), after...)
		// a race goroutine is complete when its operation and its creation section are complete
		full := rc.Bytes()
		var ends []int
		for i := range rc.Ops {
			// end of the section of this goroutine = position after its last section line
			sub := &gen.Race{Ops: rc.Ops, CRLF: rc.CRLF}
			lastSec := -1
			for si, s := range rc.Sections {
				if s.ID == rc.Ops[i].ID {
					lastSec = si
				}
			}
			if lastSec < 0 {
				sub.Ops = rc.Ops[:i+1]
				sub.Sections = nil
			} else {
				sub.Sections = rc.Sections[:lastSec+1]
			}
			b := sub.Bytes()
			// strip the closing separator line that Bytes appends
			b = b[:len(b)-len("==================\n")]
			if rc.CRLF {
				b = b[:len(b)-1]
			}
			e := len(before) + len(b)
			if lastSec == len(rc.Sections)-1 && lastSec >= 0 {
				e = len(before) + len(full) - len("==================\n")
			}
			ends = append(ends, e)
		}
		out = append(out, c10Stream{name: name, data: data, ends: [][]int{ends}})
	}
	addRace("race", "out\n", fixedChooser{"op0.frames": 1, "op1.args": 1, "sec0.frames": 1}, "Found 1 data race(s)\n")
	addRace("race3-reordered", "", fixedChooser{"ops": 1, "section-order-0": 2, "section-for-op1": 1, "op2.write": 1}, "after\n")
	// two dumps in one stream
	a, b := out[0], out[4]
	both := append(append([]byte{}, a.data...), b.data...)
	var e2 []int
	for _, e := range b.ends[0] {
		e2 = append(e2, e+len(a.data))
	}
	out = append(out, c10Stream{name: "dump+race", data: both, ends: [][]int{a.ends[0], e2}})
	// frames that resolve on disk, scanned with path guessing and source analysis on:
	// what those stages add to a complete goroutine must not depend on the cut either
	if c10SrcRoot != "" {
		seeds, full := c03SourceSeeds(c10SrcRoot)
		data := seeds[0]
		var ends []int
		for off := 0; ; {
			i := bytes.Index(data[off:], []byte("\n\ngoroutine "))
			if i < 0 {
				break
			}
			if bytes.Contains(data[:off+i], []byte("goroutine ")) {
				ends = append(ends, off+i+1)
			}
			off += i + 2
		}
		ends = append(ends, bytes.Index(data, []byte("exit status 2")))
		out = append(out, c10Stream{name: "analysed", opts: full, data: data, ends: [][]int{ends}})
	}
	if thorough {
		addDump("five-goroutines", "", fixedChooser{"goroutines": 3, "g0.creator": 1, "g1.stack-shape": 2, "g2.stack-shape": 6, "g3.creator": 2, "g4.f0.argshape": 30}, "\nPASS\n")
		addDump("long-symbols", "", fixedChooser{"goroutines": 1, "g0.f0.sym": 22, "g0.f0.file": 5, "g1.f0.sym": 28, "g1.f0.file": 6}, "")
		addRace("race-crlf", "", fixedChooser{"crlf": 1, "op0.args": 1, "sec1.frames": 1}, "")
	}
	return out
}

func TestVerifC10(t *testing.T) {
	r := h.Start("C10")
	defer r.Finish(func(s string) { t.Error(s) })
	N := bufLen()
	r.Set("reader_buffer_bytes", N)
	r.Set("rule", "per stream (every line kind of both grammars, junk around): every byte offset as the cut x 6 end signals (EOF after data, EOF with the last data, injected error after data, injected error with the last data, each repeated forever; the error reported once then EOF, after / with the last data) x deliveries (all at once, byte at a time; thorough adds 3 and 7 bytes at a time and a line at a time; the same again in the 64-byte buffer build); the whole resume history is run. Oracle: no panic, history terminates; injected error => the history ends with exactly that error; EOF => io.EOF or a parse error, the latter only when the cut lies inside a dump; complete goroutines (text entirely before the cut) present and identical to the uncut parse with pseudo-names blanked, at most one more (partial) goroutine; forwarded bytes are a prefix of the uncut forwarding (modulo <=2 trailing lines that are the start of the dump being cut). non-trivial = cut strictly inside a dump; distinct = (stream, cut, signal, delivery)")
	r.Set("assumptions", []string{"goroutine text ranges come from the generators", "where C10's prefix rule and C02's conservation rule meet (cut inside a dump's first lines) the weaker reading is used (DESIGN.md section 5, C10)"})
	if rv := r.ReplayFile(); rv != nil {
		t.Logf("replay %s: %s\nexpected: %s\nobserved: %s\ninput: %q", rv.Key, rv.Summary, rv.Expected, rv.Observed, trunc(string(rv.Input())))
		return
	}
	// a directory name of fixed length: the stream's bytes contain it, and every shard
	// must see the same offsets
	if root := filepath.Join(os.Getenv("VERIF_SCRATCH"), fmt.Sprintf("c10src-%s-%03d", h.Hash(envPart())[:6], r.Shard)); os.MkdirAll(root, 0o755) == nil {
		defer os.RemoveAll(root)
		if rp, err := filepath.EvalSymlinks(root); err == nil {
			root = rp
		}
		c10SrcRoot = root
	}
	streams := c10Streams(r.Thorough())
	seq := 0
	nDel := 2
	if r.Thorough() {
		nDel = 5
	}
	for _, st := range streams {
		data := st.data
		opts := &Opts{NameArguments: true}
		if st.opts != nil {
			opts = st.opts()
		}
		// the uncut reference
		refCalls, p, _ := history(&scriptReader{data: data}, opts, 100)
		if p != "" {
			r.Report(&h.Viol{Fingerprint: "C10/panic-uncut", Summary: "uncut stream panics: " + firstLine(p), Key: st.name, Reproduced: 5})
			continue
		}
		var refFwd []byte
		type dumpRef struct {
			start, end, fwdBefore int
			gs                    []string
		}
		var dumps []dumpRef
		for _, c := range refCalls {
			refFwd = append(refFwd, c.prefix...)
			if c.snap != nil {
				d := dumpRef{start: c.start, end: c.end, fwdBefore: len(refFwd)}
				for _, g := range c.snap.Goroutines {
					d.gs = append(d.gs, canonNoNames(g))
				}
				dumps = append(dumps, d)
			}
		}
		if len(dumps) != len(st.ends) && r.Shard == 0 {
			r.Report(&h.Viol{Fingerprint: "C10/uncut-dump-count", Summary: fmt.Sprintf("stream %s: uncut parse has %d dumps, generator made %d", st.name, len(dumps), len(st.ends)), Key: st.name, Reproduced: 5})
			continue
		}
		for cut := 0; cut <= len(data); cut++ {
			for sig := 0; sig < 6; sig++ {
				for del := 0; del < nDel; del++ {
					seq++
					if !r.MineIdx(seq) || r.Expired() {
						continue
					}
					cut, sig, del := cut, sig, del
					key := fmt.Sprintf("%s N=%d cut=%d sig=%d del=%d", st.name, N, cut, sig, del)
					inside := false
					for _, d := range dumps {
						if cut > d.start && cut < d.end {
							inside = true
						}
					}
					v := r.Check(func() *h.Viol {
						sr := &scriptReader{data: data[:cut], eofWithData: sig == 1 || sig == 3 || sig == 5}
						if sig >= 2 {
							sr.failErr = errSentinel
						}
						sr.failOnce = sig >= 4 // the failure is reported once, then the reader says EOF
						switch del {
						case 1, 2, 3: // 1, 3, 7 bytes at a time
							w := []int{0, 1, 3, 7}[del]
							for i := 0; i < cut; i += w {
								sr.chunks = append(sr.chunks, w)
							}
						case 4: // a line at a time
							last := 0
							for i := 0; i < cut; i++ {
								if data[i] == '\n' {
									sr.chunks = append(sr.chunks, i+1-last)
									last = i + 1
								}
							}
						}
						mk := func(fp, msg string) *h.Viol {
							v := &h.Viol{Fingerprint: "C10/" + fp, Summary: fmt.Sprintf("stream %s cut at %d (signal %d, delivery %d, buffer %d): %s", st.name, cut, sig, del, N, msg), Key: key, Kind: "cut"}
							v.SetInput(data[:cut])
							return v
						}
						calls, p, lastErr := history(sr, opts, 100)
						if p != "" {
							return mk("panic:"+firstLine(p), "panic: "+firstLine(p))
						}
						if lastErr != nil && lastErr.Error() == "verif: resume loop did not terminate" {
							return mk("no-termination", "the resume loop does not terminate")
						}
						if sig >= 4 {
							// A failure that is reported once: the call whose scan loop consumed everything
							// that was delivered (empty remainder) has been handed the error by its reader
							// and must return it. If the call ended earlier (its dump ended: a remainder is
							// handed back, or a snapshot is returned without error) the failure was only
							// read ahead; no demand is made then.
							seen, excused := false, false
							for _, c := range calls {
								if c.err == errSentinel {
									seen = true
								}
								if c.readerFailedDuring && c.err != errSentinel && (len(c.suffix) != 0 || (c.snap != nil && c.err == nil)) {
									excused = true
								}
							}
							if !seen && !excused {
								return mk("one-shot-reader-error-not-reported", fmt.Sprintf("the reader failed once with the injected error while the call consumed all delivered data; no call of the history returned it (history ends with %v)", lastErr))
							}
						} else if sig >= 2 {
							if lastErr != errSentinel {
								return mk("reader-error-not-reported", fmt.Sprintf("the reader failed with the injected error but the history ends with %v", lastErr))
							}
						} else {
							if lastErr != io.EOF {
								if lastErr == nil {
									return mk("no-eof", "the stream ended but no EOF/error was returned")
								}
								if !inside {
									return mk("parse-error-outside-dump", fmt.Sprintf("plain end of stream outside any dump reported %v", lastErr))
								}
							}
						}
						// goroutines
						var fwd []byte
						di := 0
						for _, c := range calls {
							fwd = append(fwd, c.prefix...)
							if c.snap == nil {
								continue
							}
							if di >= len(dumps) {
								return mk("extra-dump", "more dumps than the uncut stream has")
							}
							ref := dumps[di]
							k := 0
							for _, e := range st.ends[di] {
								if cut >= e {
									k++
								}
							}
							// goroutines listed in order: complete ones are a prefix only for goroutine dumps;
							// for race reports completeness is per goroutine
							got := c.snap.Goroutines
							if len(got) > len(ref.gs) {
								return mk("extra-goroutine", fmt.Sprintf("dump %d has %d goroutines, uncut has %d", di, len(got), len(ref.gs)))
							}
							complete := 0
							for gi := range ref.gs {
								if cut < st.ends[di][gi] {
									continue
								}
								complete++
								if gi >= len(got) {
									return mk("complete-goroutine-missing", fmt.Sprintf("dump %d goroutine %d lies entirely before the cut (ends at %d) but is missing", di, gi, st.ends[di][gi]))
								}
								if canonNoNames(got[gi]) != ref.gs[gi] {
									return mk("complete-goroutine-differs", fmt.Sprintf("dump %d goroutine %d lies entirely before the cut but differs from the uncut parse", di, gi))
								}
							}
							if !c.snap.IsRace() && len(got) > complete+1 {
								return mk("too-many-partial", fmt.Sprintf("dump %d: %d goroutines, only %d complete before the cut", di, len(got), complete))
							}
							di++
						}
						for ui := range dumps {
							need := false
							for _, e := range st.ends[ui] {
								if cut >= e {
									need = true
								}
							}
							if need && ui >= di {
								return mk("dump-with-complete-goroutines-missing", fmt.Sprintf("dump %d has goroutines entirely before the cut but no snapshot was returned for it", ui))
							}
						}
						if sig >= 2 && sig < 4 {
							lastNL := bytes.LastIndexByte(data[:cut], '\n')
							for ci, c := range calls {
								if c.err != nil && c.err != errSentinel && c.err != io.EOF && c.end >= lastNL+1 && cut > lastNL+1 {
									return mk("reader-error-replaced", fmt.Sprintf("call %d read the last delivered line together with the injected reader error but returned %v", ci, c.err))
								}
							}
						}
						// forwarded bytes
						// a final unterminated line is exempt (DESIGN.md section 5, C10)
						if i := bytes.LastIndexByte(fwd, '\n'); i != len(fwd)-1 {
							fwd = fwd[:i+1]
						}
						if !bytes.HasPrefix(refFwd, fwd) {
							ok := false
							for _, d := range dumps {
								if cut > d.start && cut <= d.end && len(fwd) >= d.fwdBefore && bytes.Equal(fwd[:d.fwdBefore], refFwd[:d.fwdBefore]) {
									tail := fwd[d.fwdBefore:]
									if bytes.HasPrefix(data[d.start:cut], tail) && bytes.Count(tail, []byte("\n")) <= 2 {
										ok = true
									}
								}
							}
							if !ok {
								return mk("forwarded-not-prefix", fmt.Sprintf("forwarded %q is not a prefix of the uncut forwarding %q", trunc(string(fwd)), trunc(string(refFwd))))
							}
						}
						return nil
					})
					out := "ok"
					if v != nil {
						out = v.Fingerprint
					}
					r.Record(key, inside, fmt.Sprintf("%s sig=%d inside=%v", out, sig, inside))
					if cut%97 == 5 && sig == 2 && del == 0 {
						r.Sample(map[string]any{"stream": st.name, "cut": cut, "signal": []string{"EOF after data", "EOF with data", "error after data", "error with data", "one-shot error after data", "one-shot error with data"}[sig], "inside_dump": inside, "text_before_cut": trunc(string(data[:cut]))})
					}
				}
			}
		}
	}
}
