//go:build verif

package stack

// The in-package part of C09: reader.readLine driven directly in the shrunk-buffer
// builds. Kept in its own file so that a renamed reader only costs this part.

import (
	"bytes"
	"fmt"
	"io"
	"strings"
	"testing"

	"github.com/maruel/panicparse/v2/internal/verifx/h"
)

func init() {
	bufLenFn = func() int { var r reader; return len(r.buf) }
	c09PartAFn = c09PartA
}

type readerObs struct {
	states      map[string]struct{}
	transitions int
}

// runReadLine drives the real reader over one schedule and checks it.
func runReadLine(data []byte, sr *scriptReader, obs *readerObs) string {
	rd := &reader{rd: sr}
	sr.onRead = func(s *scriptReader, p []byte) {
		obs.transitions++
		if len(obs.states) < 2000000 {
			obs.states[fmt.Sprintf("%d|%d|%d|%v|%s|%d", s.off, rd.r, rd.w, rd.err, rd.buf[rd.r:rd.w], s.zeroLeft)] = struct{}{}
		}
	}
	exp := expectedLines(data)
	consumed := 0
	for i := 0; ; i++ {
		var line []byte
		var err error
		var p string
		func() {
			defer func() {
				if e := recover(); e != nil {
					p = fmt.Sprint(e)
				}
			}()
			line, err = rd.readLine()
		}()
		if p != "" {
			return "panic: " + p
		}
		line = append([]byte{}, line...)
		if i < len(exp) {
			if !bytes.Equal(line, exp[i]) {
				return fmt.Sprintf("line %d: got %q want %q", i, line, exp[i])
			}
			consumed += len(line)
		} else if len(line) != 0 {
			return fmt.Sprintf("extra line %d: %q", i, line)
		}
		// what was read past the returned line plus the unread input is the rest of the stream
		rest := append(append([]byte{}, rd.buffered()...), sr.unread()...)
		if !bytes.Equal(rest, data[consumed:]) {
			return fmt.Sprintf("after line %d: buffered+unread = %q want %q", i, rest, data[consumed:])
		}
		if err != nil {
			if err != io.EOF {
				return fmt.Sprintf("error %v", err)
			}
			if consumed != len(data) {
				return fmt.Sprintf("EOF after %d of %d bytes", consumed, len(data))
			}
			if i+1 < len(exp) {
				return fmt.Sprintf("EOF after %d of %d lines", i+1, len(exp))
			}
			return ""
		}
		if i > len(exp)+2 {
			return "no EOF"
		}
	}
}

func compositions(n int, f func(chunks []int)) {
	// every composition of n (2^(n-1) split sets)
	if n == 0 {
		f(nil)
		return
	}
	chunks := make([]int, 0, n)
	var rec func(rem int)
	rec = func(rem int) {
		if rem == 0 {
			f(chunks)
			return
		}
		for k := 1; k <= rem; k++ {
			chunks = append(chunks, k)
			rec(rem - k)
			chunks = chunks[:len(chunks)-1]
		}
	}
	rec(n)
}

func c09PartA(t *testing.T, r *h.Run) {
	N := bufLen()
	r.Set("reader_buffer_bytes_part_a", N)
	lengths := []int{0, 1, N - 1, N, N + 1, 2*N + 1}
	maxTotal := 14
	if r.Thorough() {
		lengths = []int{0, 1, N - 2, N - 1, N, N + 1, N + 2, 2 * N, 2*N + 1, 3*N + 1}
		maxTotal = 17
	}
	if N > 4 {
		maxTotal += 3
	}
	obs := &readerObs{states: map[string]struct{}{}}
	mkLine := func(l int, tag byte, nl bool) []byte {
		b := bytes.Repeat([]byte{tag}, l)
		for i := range b {
			b[i] = tag + byte(i%7)
		}
		if nl {
			b = append(b, '\n')
		}
		return b
	}
	var streams [][]byte
	var rec func(prefix []byte, depth int)
	rec = func(prefix []byte, depth int) {
		if depth > 0 {
			streams = append(streams, append([]byte{}, prefix...))
		}
		if depth == 3 {
			return
		}
		for _, l := range lengths {
			if len(prefix)+l+1 > maxTotal {
				continue
			}
			rec(append(append([]byte{}, prefix...), mkLine(l, 'a'+byte(depth*8), true)...), depth+1)
		}
		// unterminated last line
		for _, l := range lengths {
			if l == 0 || len(prefix)+l > maxTotal {
				continue
			}
			streams = append(streams, append(append([]byte{}, prefix...), mkLine(l, 'A'+byte(depth*8), false)...))
		}
	}
	rec(nil, 0)
	r.Set("streams_part_a", len(streams))
	for si, data := range streams {
		if !r.MineIdx(si) || r.Expired() {
			continue
		}
		check := func(kind string, mk func() *scriptReader, desc string) {
			key := fmt.Sprintf("a N=%d %q %s %s", N, data, kind, desc)
			v := r.Check(func() *h.Viol {
				msg := runReadLine(data, mk(), obs)
				if msg == "" {
					return nil
				}
				cat := "line-content"
				switch {
				case strings.HasPrefix(msg, "panic"):
					cat = "panic"
				case strings.Contains(msg, "buffered+unread"):
					cat = "rest"
				case strings.Contains(msg, "EOF") || strings.Contains(msg, "error"):
					cat = "termination"
				}
				vv := &h.Viol{Fingerprint: "C09/readLine/" + cat, Summary: fmt.Sprintf("reader.readLine with buffer %d on stream %q, schedule %s %s: %s", N, data, kind, desc, msg), Key: key, Kind: "readLine"}
				vv.SetInput(data)
				return vv
			})
			out := "ok"
			if v != nil {
				out = v.Fingerprint
			}
			r.Record(key, len(data) > 1, out)
		}
		for _, eofWith := range []bool{false, true} {
			compositions(len(data), func(chunks []int) {
				cs := append([]int{}, chunks...)
				check("chunks", func() *scriptReader {
					return &scriptReader{data: data, chunks: append([]int{}, cs...), eofWithData: eofWith}
				}, fmt.Sprintf("%v eofWithData=%v", cs, eofWith))
			})
			// zero-length reads: 1 or 2 before each data read of the byte-at-a-time and the all-at-once schedules
			for _, unit := range []int{1, len(data) + 1} {
				var cs []int
				for i := 0; i < len(data) && unit == 1; i++ {
					cs = append(cs, 1)
				}
				nReads := len(data) + 1
				for pos := 0; pos < nReads; pos++ {
					for _, z := range []int{1, 2, 99} {
						pos, z := pos, z
						check("zero-reads", func() *scriptReader {
							return &scriptReader{data: data, chunks: append([]int{}, cs...), eofWithData: eofWith, zeros: map[int]int{pos: z}}
						}, fmt.Sprintf("unit=%d %d zero-length reads before data read %d eofWithData=%v", unit, z, pos, eofWith))
					}
				}
			}
		}
		if si%97 == 0 {
			r.Sample(map[string]any{"part": "a", "buffer": N, "stream": string(data), "schedules": "all compositions x EOF mode + zero-read insertions"})
		}
	}
	// 100 zero-length reads in a row is io.ErrNoProgress
	if r.Shard == 0 {
		data := []byte("ab\ncd\n")
		sr := &scriptReader{data: data, chunks: []int{3}, zeros: map[int]int{1: 100}}
		rd := &reader{rd: sr}
		l1, e1 := rd.readLine()
		l1 = append([]byte{}, l1...)
		l2, e2 := rd.readLine()
		if string(l1) != "ab\n" || e1 != nil || len(l2) != 0 || e2 != io.ErrNoProgress {
			r.Report(&h.Viol{Fingerprint: "C09/readLine/no-progress", Summary: fmt.Sprintf("100 zero-length reads: got %q,%v then %q,%v; want \"ab\\n\",nil then \"\",io.ErrNoProgress", l1, e1, l2, e2), Key: "a no-progress", Reproduced: 5})
		}
		r.Record("a no-progress", true, "x")
	}
	r.Add("states", len(obs.states))
	r.Add("transitions", obs.transitions)
}

