//go:build verif

package stack

// C04, C05, C12: exhaustive exploration of Aggregate over all multisets of a
// universe of signature variants (G-sig), against independently written
// references (R-part key, R-merge generalisation).

import (
	"fmt"
	"html/template"
	"io"
	"runtime/debug"
	"sort"
	"strings"
	"testing"

	"github.com/maruel/panicparse/v2/internal/verifx/h"
)

const (
	ptr1 = uint64(0xc000012340)
	ptr2 = uint64(0xc000045678)
)

// sigAttr is one variant of the universe, as a vector of attribute choices.
type sigAttr struct {
	state, creator, locked, sleep, length, fn, file, line, elided, args int
}

func (a sigAttr) String() string {
	return fmt.Sprintf("st%d cr%d lk%d sl%d len%d fn%d fi%d li%d el%d ar%d", a.state, a.creator, a.locked, a.sleep, a.length, a.fn, a.file, a.line, a.elided, a.args)
}

var sigDomains = []int{2, 5, 2, 3, 2, 2, 4, 2, 2, len(sigArgShapes)}

func (a *sigAttr) field(i int) *int {
	return []*int{&a.state, &a.creator, &a.locked, &a.sleep, &a.length, &a.fn, &a.file, &a.line, &a.elided, &a.args}[i]
}

func v(x uint64) Arg   { return Arg{Value: x, IsPtr: x > 512*1024 && x < 1<<63-1} }
func agg(f ...Arg) Arg { return Arg{IsAggregate: true, Fields: Args{Values: f}} }

// aggE is an aggregate whose field list is elided: {f..., ...}
func aggE(f ...Arg) Arg { return Arg{IsAggregate: true, Fields: Args{Values: f, Elided: true}} }

// sigArgShapes is the argument-list dimension: pairs differ in a plain value,
// in a pointer value, in pointer-ness, in "_", in aggregate shape, in elision,
// at top level, inside an aggregate and inside a nested aggregate.
var sigArgShapes = []func() Args{
	func() Args { return Args{} },
	func() Args { return Args{Values: []Arg{v(1)}} },
	func() Args { return Args{Values: []Arg{v(2)}} },
	func() Args { return Args{Values: []Arg{v(ptr1)}} },
	func() Args { return Args{Values: []Arg{v(ptr2)}} },
	func() Args { return Args{Values: []Arg{v(1), v(ptr1)}} },
	func() Args { return Args{Values: []Arg{v(1), v(ptr2)}} },
	func() Args { return Args{Values: []Arg{v(2), v(ptr1)}} },
	func() Args { return Args{Values: []Arg{agg(v(1), v(ptr1))}} },
	func() Args { return Args{Values: []Arg{agg(v(2), v(ptr1))}} },
	func() Args { return Args{Values: []Arg{agg(v(1), v(ptr2))}} },
	func() Args { return Args{Values: []Arg{agg(agg(v(ptr1)))}} },
	func() Args { return Args{Values: []Arg{agg(agg(v(ptr2)))}} },
	func() Args { return Args{Values: []Arg{v(1)}, Elided: true} },
	func() Args { return Args{Values: []Arg{v(2)}, Elided: true} },
	func() Args { return Args{Values: []Arg{{IsOffsetTooLarge: true}}} },
	func() Args { return Args{Values: []Arg{v(1), v(2)}} },
	func() Args { return Args{Values: []Arg{agg(v(1)), v(2)}} },
	func() Args { return Args{Values: []Arg{aggE(v(1))}} },
	func() Args { return Args{Values: []Arg{aggE(v(2))}} },
	func() Args { return Args{Values: []Arg{aggE(v(ptr1))}} },
	func() Args { return Args{Values: []Arg{agg(aggE(v(ptr2)))}} },
	func() Args { return Args{Values: []Arg{v(0)}} },
	func() Args { return Args{Values: []Arg{v(1)}, Processed: []string{"true"}} },
	func() Args { return Args{Values: []Arg{v(2)}, Processed: []string{"true"}} },
	func() Args { return Args{Values: []Arg{v(ptr1)}, Processed: []string{"*T(0xc000012340)"}} },
	// aggregates with a typed rendering: members differ only inside the aggregate
	func() Args {
		return Args{Values: []Arg{agg(v(1), v(ptr1)), v(5)}, Processed: []string{"pair{0x1, 0xc000012340}", "5"}}
	},
	func() Args {
		return Args{Values: []Arg{agg(v(1), v(ptr2)), v(5)}, Processed: []string{"pair{0x1, 0xc000045678}", "5"}}
	},
	func() Args {
		return Args{Values: []Arg{agg(v(2), v(ptr1)), v(5)}, Processed: []string{"pair{0x2, 0xc000012340}", "5"}}
	},
}

// setSrc fills the source fields of a Call from public fields only (what the parser
// derives from a file line).
func setSrc(c *Call, file string, line int) {
	c.RemoteSrcPath, c.Line = file, line
	c.SrcName, c.DirSrc = "", ""
	if i := strings.LastIndexByte(file, '/'); i != -1 {
		c.SrcName = file[i+1:]
		if j := strings.LastIndexByte(file[:i], '/'); j != -1 {
			c.DirSrc = file[j+1:]
		}
	}
	c.ImportPath = c.Func.ImportPath
}

// walkArgs visits every scalar argument, depth first.
func walkArgs(a *Args, f func(*Arg)) {
	for i := range a.Values {
		if a.Values[i].IsAggregate {
			walkArgs(&a.Values[i].Fields, f)
		} else {
			f(&a.Values[i])
		}
	}
}

func mkCall(fn, file string, line int, args Args) Call {
	c := Call{Args: args}
	if err := c.Func.Init(fn); err != nil {
		panic(err)
	}
	setSrc(&c, file, line)
	return c
}

// build makes a fresh goroutine (no sharing between goroutines) for a variant.
func (a sigAttr) build(named bool) *Goroutine {
	g := &Goroutine{}
	g.State = []string{"chan receive", "select"}[a.state]
	switch a.creator {
	case 1:
		g.CreatedBy.Calls = []Call{mkCall("main.mk", "/gp/src/x/a.go", 10, Args{})}
	case 2:
		g.CreatedBy.Calls = []Call{mkCall("main.mk2", "/gp/src/x/a.go", 11, Args{})}
	case 3, 4:
		// a creation *stack* as race reports have them: same first frame, different caller
		g.CreatedBy.Calls = []Call{mkCall("main.mk", "/gp/src/x/a.go", 10, Args{}),
			mkCall([]string{"main.startA", "main.startB"}[a.creator-3], "/gp/src/x/c.go", 20+a.creator, Args{})}
	}
	g.Locked = a.locked == 1
	g.SleepMin = []int{0, 1, 5}[a.sleep]
	g.SleepMax = g.SleepMin
	fn := []string{"main.f", "main.g"}[a.fn]
	file := []string{"/gp/src/x/a.go", "/other/x/a.go", "/r1/src/x/a.go", "/r2/src/x/a.go"}[a.file]
	g.Stack.Calls = []Call{mkCall(fn, file, 1+a.line, sigArgShapes[a.args]())}
	if a.file >= 2 {
		// a frame that path guessing resolved: the same relative path under two
		// different roots (files 2 and 3 differ in the remote and local path only)
		c := &g.Stack.Calls[0]
		c.RelSrcPath = "x/a.go"
		c.LocalSrcPath = []string{"/l1", "/l2"}[a.file-2] + "/src/x/a.go"
		c.ImportPath = "x"
		c.Location = GOPATH
	}
	if a.length == 1 {
		g.Stack.Calls = append(g.Stack.Calls, mkCall("main.h", "/gp/src/x/b.go", 7, Args{}))
	}
	g.Stack.Elided = a.elided == 1
	if named {
		for i := range g.Stack.Calls {
			walkArgs(&g.Stack.Calls[i].Args, func(arg *Arg) {
				switch arg.Value {
				case ptr1:
					arg.Name = "#1"
				case ptr2:
					arg.Name = "#2"
				}
			})
		}
	}
	return g
}

// sigUniverse enumerates the base variant and every variant with at most maxDev
// deviating attributes; pairFilter restricts which attribute pairs deviate
// together (nil: all).
func sigUniverse(maxDev int, pairOK func(i, j int) bool) []sigAttr {
	var out []sigAttr
	out = append(out, sigAttr{})
	n := len(sigDomains)
	for i := 0; i < n; i++ {
		for vi := 1; vi < sigDomains[i]; vi++ {
			a := sigAttr{}
			*a.field(i) = vi
			out = append(out, a)
		}
	}
	if maxDev >= 2 {
		for i := 0; i < n; i++ {
			for j := i + 1; j < n; j++ {
				if pairOK != nil && !pairOK(i, j) {
					continue
				}
				for vi := 1; vi < sigDomains[i]; vi++ {
					for vj := 1; vj < sigDomains[j]; vj++ {
						a := sigAttr{}
						*a.field(i) = vi
						*a.field(j) = vj
						out = append(out, a)
					}
				}
			}
		}
	}
	return out
}

func aggUniverse(r *h.Run) []sigAttr {
	// every single-attribute deviation, every argument shape combined with every
	// sleep / lock modifier (so that "similar but not equal" members exist for every
	// shape), lock x sleep, and - thorough - state x args.
	const argsDim = 9
	u := sigUniverse(2, func(i, j int) bool {
		if j == argsDim && (i == 2 || i == 3) {
			return true
		}
		if i == 2 && j == 3 {
			return true
		}
		// a truncated stack / a creator combined with the sleep and lock modifiers
		if (i == 2 || i == 3) && j == 8 || i == 1 && (j == 2 || j == 3) {
			return true
		}
		return r.Thorough() && j == argsDim && i == 0
	})
	// resolved frames combined with the argument shapes that make members of one bucket
	// differ (pointers at top level and inside an aggregate): merges of resolved frames
	for _, args := range []int{3, 4, 8, 10} {
		u = append(u, sigAttr{file: 2, args: args})
	}
	if r.Thorough() {
		return u
	}
	// quick: drop the second sleep value combined with argument shapes
	var out []sigAttr
	for _, a := range u {
		if a.sleep == 2 && a.args != 0 {
			continue
		}
		out = append(out, a)
	}
	return out
}

// --- reference: R-part key --------------------------------------------------

func refArgsKey(b *strings.Builder, a *Args, level Similarity) {
	fmt.Fprintf(b, "(%d,%v:", len(a.Values), a.Elided)
	for i := range a.Values {
		x := &a.Values[i]
		if x.IsAggregate {
			b.WriteString("{")
			refArgsKey(b, &x.Fields, level)
			b.WriteString("}")
			continue
		}
		switch level {
		case ExactFlags, ExactLines:
			fmt.Fprintf(b, "[%q %v %v %d]", x.Name, x.IsOffsetTooLarge, x.IsPtr, x.Value)
		case AnyPointer:
			if x.IsPtr {
				b.WriteString("[ptr]")
			} else {
				fmt.Fprintf(b, "[%v %d]", x.IsOffsetTooLarge, x.Value)
			}
		case AnyValue:
			b.WriteString("[v]")
		}
	}
	b.WriteString(")")
}

func refStackKey(b *strings.Builder, s *Stack, level Similarity) {
	fmt.Fprintf(b, "<%d,%v", len(s.Calls), s.Elided)
	for i := range s.Calls {
		c := &s.Calls[i]
		fmt.Fprintf(b, "|%q %q %d ", c.Func.Complete, c.RemoteSrcPath, c.Line)
		refArgsKey(b, &c.Args, level)
	}
	b.WriteString(">")
}

// refKey is the canonical key of a goroutine at a similarity level, written from
// the statement of C05.
func refKey(g *Goroutine, level Similarity) string {
	var b strings.Builder
	fmt.Fprintf(&b, "%q", g.State)
	if level == ExactFlags {
		fmt.Fprintf(&b, " lk%v", g.Locked)
	}
	b.WriteString(" by")
	refStackKey(&b, &g.CreatedBy, level)
	b.WriteString(" st")
	refStackKey(&b, &g.Stack, level)
	return b.String()
}

// --- reference: R-merge -----------------------------------------------------

func exactArgEqual(a, b *Arg) bool {
	return a.Name == b.Name && a.IsOffsetTooLarge == b.IsOffsetTooLarge && a.IsPtr == b.IsPtr && a.Value == b.Value
}

// checkGeneralises verifies that out truthfully generalises the argument lists of
// all members at one frame (recursively).
// argsValuesEqual: the raw values of two argument lists are the same, deep.
func argsValuesEqual(a, b *Args) bool {
	if len(a.Values) != len(b.Values) || a.Elided != b.Elided {
		return false
	}
	for i := range a.Values {
		x, y := &a.Values[i], &b.Values[i]
		if x.IsAggregate != y.IsAggregate {
			return false
		}
		if x.IsAggregate {
			if !argsValuesEqual(&x.Fields, &y.Fields) {
				return false
			}
		} else if !exactArgEqual(x, y) {
			return false
		}
	}
	return true
}

func checkGeneralises(out *Args, members []*Args, path string) string {
	// the typed rendering is what is displayed when present: it must not be shown for
	// a call line on which the members' values differ (it states one member's values)
	if len(out.Processed) != 0 {
		for _, m := range members[1:] {
			if !argsValuesEqual(members[0], m) {
				return fmt.Sprintf("%s: members differ on this call line but one member's typed rendering %q is shown", path, out.Processed)
			}
		}
	}
	for _, m := range members {
		if len(m.Values) != len(out.Values) {
			return fmt.Sprintf("%s: %d values shown, a member has %d", path, len(out.Values), len(m.Values))
		}
		if m.Elided != out.Elided {
			return fmt.Sprintf("%s: elided %v shown, a member has %v", path, out.Elided, m.Elided)
		}
	}
	for i := range out.Values {
		o := &out.Values[i]
		p := fmt.Sprintf("%s[%d]", path, i)
		if members[0].Values[i].IsAggregate {
			if !o.IsAggregate {
				return p + ": aggregate shown as scalar"
			}
			sub := make([]*Args, len(members))
			for k, m := range members {
				if !m.Values[i].IsAggregate {
					return p + ": members disagree on aggregate-ness"
				}
				sub[k] = &m.Values[i].Fields
			}
			if s := checkGeneralises(&o.Fields, sub, p); s != "" {
				return s
			}
			continue
		}
		if o.IsAggregate {
			return p + ": scalar shown as aggregate"
		}
		allEq := true
		for _, m := range members[1:] {
			if !exactArgEqual(&members[0].Values[i], &m.Values[i]) {
				allEq = false
			}
		}
		if allEq {
			if !exactArgEqual(o, &members[0].Values[i]) {
				return fmt.Sprintf("%s: common value %s shown as %s (name %q)", p, members[0].Values[i].String(), o.String(), o.Name)
			}
		} else if o.Name != "*" {
			return fmt.Sprintf("%s: members differ but %s is shown instead of *", p, o.String())
		}
	}
	return ""
}

func checkBucketSignature(b *Bucket, members []*Goroutine) string {
	m0 := members[0]
	if b.State != m0.State {
		return fmt.Sprintf("state %q, member has %q", b.State, m0.State)
	}
	minS, maxS, locked := m0.SleepMin, m0.SleepMax, false
	for _, m := range members {
		if m.SleepMin < minS {
			minS = m.SleepMin
		}
		if m.SleepMax > maxS {
			maxS = m.SleepMax
		}
		locked = locked || m.Locked
		if m.State != b.State {
			return fmt.Sprintf("state %q, a member has %q", b.State, m.State)
		}
		if len(m.CreatedBy.Calls) != len(b.CreatedBy.Calls) {
			return "creator differs from a member's"
		}
		for i := range b.CreatedBy.Calls {
			bc, mc := &b.CreatedBy.Calls[i], &m.CreatedBy.Calls[i]
			if bc.Func != mc.Func || bc.RemoteSrcPath != mc.RemoteSrcPath || bc.Line != mc.Line {
				return "creator frame differs from a member's"
			}
		}
		if len(m.Stack.Calls) != len(b.Stack.Calls) || m.Stack.Elided != b.Stack.Elided {
			return "stack shape differs from a member's"
		}
		for i := range b.Stack.Calls {
			bc, mc := &b.Stack.Calls[i], &m.Stack.Calls[i]
			if bc.Func != mc.Func || bc.RemoteSrcPath != mc.RemoteSrcPath || bc.Line != mc.Line || bc.SrcName != mc.SrcName || bc.DirSrc != mc.DirSrc ||
				bc.LocalSrcPath != mc.LocalSrcPath || bc.RelSrcPath != mc.RelSrcPath || bc.ImportPath != mc.ImportPath || bc.Location != mc.Location {
				return fmt.Sprintf("frame %d function/file/line differs from a member's", i)
			}
		}
	}
	if b.SleepMin != minS || b.SleepMax != maxS {
		return fmt.Sprintf("sleep range %d~%d, members span %d~%d", b.SleepMin, b.SleepMax, minS, maxS)
	}
	if b.Locked != locked {
		return fmt.Sprintf("locked %v, OR over members is %v", b.Locked, locked)
	}
	for i := range b.Stack.Calls {
		sub := make([]*Args, len(members))
		for k, m := range members {
			sub[k] = &m.Stack.Calls[i].Args
		}
		if s := checkGeneralises(&b.Stack.Calls[i].Args, sub, fmt.Sprintf("frame %d args", i)); s != "" {
			return s
		}
	}
	return ""
}

// --- the enumeration ----------------------------------------------------------

var levelNames = []string{"ExactFlags", "ExactLines", "AnyPointer", "AnyValue"}

type aggCase struct {
	u     []sigAttr
	idx   []int // multiset, non decreasing indexes in u
	perm  []int // arrival order: position -> member
	first int   // position flagged First
	named bool
	aggs  [4]*Aggregated // aggregations of this case at the four levels, when already computed
}

func (c *aggCase) key() string {
	return fmt.Sprintf("m%v p%v f%d n%v", c.idx, c.perm, c.first, c.named)
}

func (c *aggCase) describe() string {
	var parts []string
	for pos, m := range c.perm {
		parts = append(parts, fmt.Sprintf("pos%d id=%d {%s}", pos, aggIDs[m], c.u[c.idx[m]]))
	}
	return strings.Join(parts, "; ") + fmt.Sprintf("; first=pos%d named=%v", c.first, c.named)
}

// member ids are deliberately not ascending in member order.
var aggIDs = []int{70, 3, 120, 15, 9, 44}

func (c *aggCase) snapshot() *Snapshot {
	s := &Snapshot{}
	for pos, m := range c.perm {
		g := c.u[c.idx[m]].build(c.named)
		g.ID = aggIDs[m]
		g.First = pos == c.first
		s.Goroutines = append(s.Goroutines, g)
	}
	return s
}

func permutations(n int) [][]int {
	var out [][]int
	p := make([]int, n)
	for i := range p {
		p[i] = i
	}
	var rec func(k int)
	rec = func(k int) {
		if k == n {
			out = append(out, append([]int{}, p...))
			return
		}
		for i := k; i < n; i++ {
			p[k], p[i] = p[i], p[k]
			rec(k + 1)
			p[k], p[i] = p[i], p[k]
		}
	}
	rec(0)
	return out
}

// forEachMultiset enumerates all non empty multisets of size <= maxSize over n
// elements; the callback gets the non decreasing index list and a running index.
func forEachMultiset(n, maxSize int, f func(seq int, idx []int)) {
	seq := 0
	var rec func(idx []int, from int)
	rec = func(idx []int, from int) {
		if len(idx) > 0 {
			f(seq, idx)
			seq++
		}
		if len(idx) == maxSize {
			return
		}
		for i := from; i < n; i++ {
			rec(append(idx, i), i)
		}
	}
	rec(make([]int, 0, maxSize), 0)
}

func idsKey(ids []int) string {
	s := append([]int{}, ids...)
	sort.Ints(s)
	return fmt.Sprint(s)
}

func partitionKey(groups [][]int) string {
	var ks []string
	for _, g := range groups {
		ks = append(ks, idsKey(g))
	}
	sort.Strings(ks)
	return strings.Join(ks, "")
}

func safeAggregate(s *Snapshot, level Similarity) (a *Aggregated, panicked string) {
	defer func() {
		if e := recover(); e != nil {
			panicked = fmt.Sprintf("%v\n%s", e, debug.Stack())
		}
	}()
	return s.Aggregate(level), ""
}

// aggOracle checks one aggregation for one property and returns a violation or nil.
type aggOracle func(c *aggCase, s *Snapshot, level Similarity, a *Aggregated) *h.Viol

func runAggCheck(t *testing.T, prop string, oracle aggOracle, rule string, nontrivial func(c *aggCase, s *Snapshot) bool) {
	r := h.Start(prop)
	defer r.Finish(func(s string) { t.Error(s) })
	if rv := r.ReplayFile(); rv != nil {
		replayAgg(t, r, rv, oracle)
		return
	}
	u := aggUniverse(r)
	maxSize := 4
	r.Set("rule", rule)
	r.Set("universe_size", len(u))
	r.Set("max_multiset_size", maxSize)
	var uni []string
	for _, a := range u {
		uni = append(uni, a.String())
	}
	ptrShape := map[int]bool{}
	for i, f := range sigArgShapes {
		a := f()
		walkArgs(&a, func(x *Arg) {
			if x.IsPtr {
				ptrShape[i] = true
			}
		})
	}
	relKeys := make([]string, len(u))
	for i, a := range u {
		relKeys[i] = refKey(a.build(false), AnyValue)
	}
	perms := map[int][][]int{}
	for n := 1; n <= maxSize; n++ {
		perms[n] = permutations(n)
	}
	forEachMultiset(len(u), maxSize, func(seq int, idx []int) {
		if !r.MineIdx(seq) || r.Expired() {
			return
		}
		n := len(idx)
		if n == 4 && !r.Thorough() && !threeRelated(u, idx, relKeys) {
			return
		}
		hasPtr := false
		for _, i := range idx {
			if ptrShape[u[i].args] {
				hasPtr = true
			}
		}
		for _, named := range []bool{false, true} {
			if named && (n < 2 || !hasPtr) {
				continue
			}
			for pi, perm := range perms[n] {
				if n == 4 && r.Thorough() && !threeRelated(u, idx, relKeys) && pi%3 != 0 {
					continue // unrelated multisets of 4 in the thorough tier: 8 of the 24 arrival orders
				}
				firsts := []int{0}
				if pi%2 == 1 && n > 1 {
					firsts = []int{n - 1}
				}
				if n <= 2 {
					firsts = firsts[:0]
					for f := 0; f < n; f++ {
						firsts = append(firsts, f)
					}
				}
				for _, first := range firsts {
					c := &aggCase{u: u, idx: append([]int{}, idx...), perm: perm, first: first, named: named}
					var outcome strings.Builder
					s := c.snapshot()
					var aggs [4]*Aggregated
					failed := false
					for level := ExactFlags; level <= AnyValue; level++ {
						a, p := safeAggregate(s, level)
						if p != "" {
							failed = true
							break
						}
						aggs[level] = a
					}
					c.aggs = aggs
					for level := ExactFlags; level <= AnyValue && !failed; level++ {
						if oracle(c, s, level, aggs[level]) != nil {
							failed = true
						}
					}
					if failed {
						// slow path: re-execute from scratch, 5x, per level - with the calls that
						// preceded it on the same snapshot in the fast path (the four levels in
						// ascending order), so that a result that depends on earlier calls is
						// reproduced as it was seen
						for level := ExactFlags; level <= AnyValue; level++ {
							lv := level
							r.Check(func() *h.Viol {
								s := c.snapshot()
								for l := ExactFlags; l < lv; l++ {
									_, _ = safeAggregate(s, l)
								}
								a, p := safeAggregate(s, lv)
								if p != "" {
									return &h.Viol{Fingerprint: prop + "/panic-in-Aggregate", Summary: "Aggregate panicked: " + firstLine(p), Key: c.key() + " " + levelNames[lv], Observed: p, Expected: "no panic", Extra: map[string]any{"case": c.describe()}}
								}
								c.aggs = [4]*Aggregated{}
								vv := oracle(c, s, lv, a)
								if vv != nil {
									vv.Key = c.key() + " " + levelNames[lv]
									if vv.Extra == nil {
										vv.Extra = map[string]any{}
									}
									vv.Extra["case"] = c.describe()
									vv.Extra["level"] = levelNames[lv]
									vv.Kind = "agg"
								}
								return vv
							})
						}
						outcome.WriteString("violation")
					} else {
						for _, a := range aggs {
							var bk []string
							for _, b := range a.Buckets {
								bk = append(bk, fmt.Sprintf("%v%v|", b.IDs, b.First))
							}
							sort.Strings(bk)
							outcome.WriteString(strings.Join(bk, "") + ";")
						}
					}
					r.Record(c.key(), nontrivial(c, s), outcome.String())
					if seq%9973 == 0 && pi == 0 && first == 0 && !named {
						r.Sample(map[string]any{"goroutines": c.describe(), "buckets_by_level": outcome.String()})
					}
				}
			}
		}
	})
	_ = uni
	runAggLarge(r, prop, u, oracle)
}

// runAggLarge: structured large snapshots (tens to thousands of goroutines, many
// buckets): cycles, strides, blocks and "X X <many others> X" patterns over the
// universe; replaces "randomly up to thousands of goroutines".
func runAggLarge(r *h.Run, prop string, u []sigAttr, oracle aggOracle) {
	m := len(u)
	type pattern struct {
		name string
		seq  []int
	}
	var pats []pattern
	mk := func(name string, n int, f func(i int) int) {
		p := pattern{name: name}
		for i := 0; i < n; i++ {
			p.seq = append(p.seq, ((f(i)%m)+m)%m)
		}
		pats = append(pats, p)
	}
	for _, n := range []int{12, 40, 300, 2000} {
		n := n
		mk(fmt.Sprintf("cycle-%d", n), n, func(i int) int { return i })
		mk(fmt.Sprintf("stride7-%d", n), n, func(i int) int { return i * 7 })
		mk(fmt.Sprintf("blocks3-%d", n), n, func(i int) int { return i / 3 })
		mk(fmt.Sprintf("reverse-%d", n), n, func(i int) int { return n - i })
	}
	for x := 0; x < m; x += 5 {
		x := x
		for _, gap := range []int{7, 8, 9, 16, 17, 33} {
			gap := gap
			mk(fmt.Sprintf("x%d-x-%d-others-x", x, gap), gap+4, func(i int) int {
				if i < 2 || i >= gap+2 {
					return x
				}
				return x + i
			})
		}
	}
	if r.Thorough() {
		mk("cycle-10000", 10000, func(i int) int { return i })
	}
	for pi, p := range pats {
		if !r.MineIdx(pi) || r.Expired() {
			continue
		}
		for _, firstPos := range []int{0, len(p.seq) - 1} {
			key := fmt.Sprintf("large %s first=%d", p.name, firstPos)
			build := func() *Snapshot {
				s := &Snapshot{}
				for i, ui := range p.seq {
					g := u[ui].build(false)
					g.ID = 100000 - i*3
					g.First = i == firstPos
					s.Goroutines = append(s.Goroutines, g)
				}
				return s
			}
			c := &aggCase{u: u}
			outcome := ""
			for level := ExactFlags; level <= AnyValue; level++ {
				lv := level
				r.Check(func() *h.Viol {
					s := build()
					a, pn := safeAggregate(s, lv)
					if pn != "" {
						return &h.Viol{Fingerprint: prop + "/panic-in-Aggregate", Summary: "Aggregate panicked on " + key + ": " + firstLine(pn), Key: key + " " + levelNames[lv], Kind: "agg-large"}
					}
					c.aggs = [4]*Aggregated{}
					// positions for the cached reference keys do not apply here
					c.idx, c.perm = nil, nil
					vv := oracleLarge(prop, c, s, lv, a, oracle)
					if vv != nil {
						vv.Key = key + " " + levelNames[lv]
						vv.Kind = "agg-large"
						vv.Summary = key + ": " + vv.Summary
					}
					if vv == nil {
						outcome += fmt.Sprint(len(a.Buckets), ";")
					}
					return vv
				})
			}
			r.Record(key, true, outcome)
		}
	}
	r.Sample(map[string]any{"large_patterns": len(pats), "sizes": "12..2000 (thorough 10000) goroutines, up to |U| buckets"})
}

// oracleLarge runs the property's oracle on a large snapshot; C05's cached keys are
// bypassed by computing the reference keys directly.
func oracleLarge(prop string, c *aggCase, s *Snapshot, level Similarity, a *Aggregated, oracle aggOracle) *h.Viol {
	if prop != "C05" {
		return oracle(c, s, level, a)
	}
	byKey := map[string][]int{}
	for _, g := range s.Goroutines {
		k := refKey(g, level)
		byKey[k] = append(byKey[k], g.ID)
	}
	var exp, got [][]int
	for _, ids := range byKey {
		exp = append(exp, ids)
	}
	for _, b := range a.Buckets {
		got = append(got, b.IDs)
	}
	if ek, gk := partitionKey(exp), partitionKey(got); ek != gk {
		return &h.Viol{Fingerprint: "C05/partition-differs-large:" + levelNames[level], Summary: fmt.Sprintf("the partition at %s differs from the reference partition (%d vs %d classes)", levelNames[level], len(got), len(exp))}
	}
	return nil
}

func firstLine(s string) string {
	if i := strings.IndexByte(s, '\n'); i >= 0 {
		return s[:i]
	}
	return s
}

func replayAgg(t *testing.T, r *h.Run, rv *h.Viol, oracle aggOracle) {
	// key: "m[..] p[..] fN nBOOL LEVEL"
	var idx, perm []int
	var first int
	var named bool
	var level string
	k := rv.Key
	parse := func(s string) []int {
		var out []int
		for _, f := range strings.Fields(strings.Trim(s, "[]")) {
			var x int
			fmt.Sscan(f, &x)
			out = append(out, x)
		}
		return out
	}
	mi := strings.Index(k, "m[")
	pi := strings.Index(k, " p[")
	fi := strings.Index(k, " f")
	idx = parse(k[mi+1 : pi])
	perm = parse(k[pi+2 : fi])
	fmt.Sscanf(k[fi:], " f%d n%t %s", &first, &named, &level)
	thorough := false
	if ex, ok := rv.Extra["tier"].(string); ok && ex == "thorough" {
		thorough = true
	}
	_ = thorough
	u := aggUniverse(r)
	c := &aggCase{u: u, idx: idx, perm: perm, first: first, named: named}
	lv := ExactFlags
	for i, n := range levelNames {
		if n == level {
			lv = Similarity(i)
		}
	}
	s := c.snapshot()
	a, p := safeAggregate(s, lv)
	t.Logf("replay %s\ncase: %s", k, c.describe())
	if p != "" {
		t.Fatalf("panic: %s", p)
	}
	for i, b := range a.Buckets {
		t.Logf("bucket %d: ids=%v first=%v state=%q sleep=%d~%d locked=%v stack=%v", i, b.IDs, b.First, b.State, b.SleepMin, b.SleepMax, b.Locked, renderStack(&b.Stack))
	}
	if vv := oracle(c, s, lv, a); vv != nil {
		t.Errorf("VIOLATION reproduced: %s: %s\nexpected: %s\nobserved: %s", vv.Fingerprint, vv.Summary, vv.Expected, vv.Observed)
	} else {
		t.Logf("no violation on this tree")
	}
}

func renderStack(s *Stack) string {
	var parts []string
	for i := range s.Calls {
		c := &s.Calls[i]
		parts = append(parts, fmt.Sprintf("%s(%s) %s:%d", c.Func.Complete, c.Args.String(), c.RemoteSrcPath, c.Line))
	}
	if s.Elided {
		parts = append(parts, "(...)")
	}
	return strings.Join(parts, " <- ")
}

// ---- C04 ------------------------------------------------------------------------

func oracleC04(c *aggCase, s *Snapshot, level Similarity, a *Aggregated) *h.Viol {
	mk := func(fp, msg string) *h.Viol {
		return &h.Viol{Fingerprint: "C04/" + fp, Summary: msg, Observed: describeBuckets(a)}
	}
	if a == nil {
		return mk("nil-aggregated", "Aggregate returned nil")
	}
	if a.Snapshot != s {
		return mk("snapshot-backref", "Aggregated.Snapshot is not the snapshot it was made from")
	}
	// the back-reference and the buckets also survive the read-only uses of the result
	// (rendering it, twice): done for the small cases in their first arrival order
	if len(c.idx) <= 2 && c.first == 0 && !c.named && (len(c.perm) < 2 || c.perm[0] == 0) {
		before := describeBuckets(a)
		for k := 0; k < 2; k++ {
			if err := a.ToHTML(io.Discard, template.HTML("")); err != nil {
				return mk("html-error", "Aggregated.ToHTML: "+err.Error())
			}
			if a.Snapshot != s {
				return mk("snapshot-backref-after-render", "after Aggregated.ToHTML, Aggregated.Snapshot is no longer the snapshot it was made from")
			}
		}
		if describeBuckets(a) != before {
			return mk("buckets-changed-by-render", "Aggregated.ToHTML changed the buckets")
		}
	}
	seen := map[int]int{}
	total := 0
	firstID := -1
	for _, g := range s.Goroutines {
		if g.First {
			firstID = g.ID
		}
	}
	nFirst := 0
	for bi, b := range a.Buckets {
		if len(b.IDs) == 0 {
			return mk("empty-bucket", fmt.Sprintf("bucket %d has no ids", bi))
		}
		if !sort.IntsAreSorted(b.IDs) {
			return mk("ids-unsorted", fmt.Sprintf("bucket %d ids %v are not ascending", bi, b.IDs))
		}
		has := false
		for i, id := range b.IDs {
			if i > 0 && b.IDs[i-1] == id {
				return mk("ids-duplicate", fmt.Sprintf("bucket %d lists id %d twice", bi, id))
			}
			if prev, ok := seen[id]; ok {
				return mk("ids-overlap", fmt.Sprintf("id %d is in buckets %d and %d", id, prev, bi))
			}
			seen[id] = bi
			total++
			if id == firstID {
				has = true
			}
		}
		if b.First != has {
			return mk("first-flag", fmt.Sprintf("bucket %d First=%v but contains-first=%v", bi, b.First, has))
		}
		if b.First {
			nFirst++
		}
	}
	if total != len(s.Goroutines) {
		return mk("count-mismatch", fmt.Sprintf("bucket ids total %d, snapshot has %d goroutines", total, len(s.Goroutines)))
	}
	for _, g := range s.Goroutines {
		if _, ok := seen[g.ID]; !ok {
			return mk("id-lost", fmt.Sprintf("goroutine %d is in no bucket", g.ID))
		}
	}
	if nFirst != 1 {
		return mk("first-count", fmt.Sprintf("%d buckets flagged first", nFirst))
	}
	return nil
}

func describeBuckets(a *Aggregated) string {
	if a == nil {
		return "<nil>"
	}
	var parts []string
	for _, b := range a.Buckets {
		parts = append(parts, fmt.Sprintf("ids=%v first=%v %q %d~%d lk=%v %s", b.IDs, b.First, b.State, b.SleepMin, b.SleepMax, b.Locked, renderStack(&b.Stack)))
	}
	return strings.Join(parts, "\n")
}

func TestVerifC04(t *testing.T) {
	runAggCheck(t, "C04", oracleC04,
		"all multisets of <=3 goroutines, and all multisets of 4 in which >=3 are similar at AnyValue (thorough: all multisets of 4), over the signature-variant universe x all arrival orders x first-flag positions x named/unnamed x 4 levels; non-trivial = >=2 goroutines; distinct = (multiset, order, first, named)",
		func(c *aggCase, s *Snapshot) bool { return len(c.idx) >= 2 })
}

// ---- C05 --------------------------------------------------------------------------

func oracleC05(c *aggCase, s *Snapshot, level Similarity, a *Aggregated) *h.Viol {
	// expected partition from the reference key
	byKey := map[string][]int{}
	keyOf := map[int]string{}
	for pos, g := range s.Goroutines {
		ck := [3]int{c.idx[c.perm[pos]], b2i(c.named), int(level)}
		k, ok := refKeyCache[ck]
		if !ok {
			k = refKey(g, level)
			refKeyCache[ck] = k
		}
		byKey[k] = append(byKey[k], g.ID)
		keyOf[g.ID] = k
	}
	var exp [][]int
	for _, ids := range byKey {
		exp = append(exp, ids)
	}
	var got [][]int
	for _, b := range a.Buckets {
		got = append(got, b.IDs)
	}
	if ek, gk := partitionKey(exp), partitionKey(got); ek != gk {
		fp := "C05/partition-too-coarse"
		// decide direction: two goroutines together that should not be, or apart that should be together
		for _, b := range a.Buckets {
			for _, id := range b.IDs[1:] {
				if keyOf[id] != keyOf[b.IDs[0]] {
					return &h.Viol{Fingerprint: fp + ":" + levelNames[level], Summary: fmt.Sprintf("goroutines %d and %d share a bucket at %s but differ in an attribute the level must respect", b.IDs[0], id, levelNames[level]), Expected: ek, Observed: gk}
				}
			}
		}
		return &h.Viol{Fingerprint: "C05/partition-too-fine:" + levelNames[level], Summary: fmt.Sprintf("similar goroutines are split at %s", levelNames[level]), Expected: ek, Observed: gk}
	}
	// refinement: level i refines level i+1 (checked once, at the finest level)
	if level == ExactFlags {
		p0 := partitionOfC(c, s, ExactFlags)
		if p0 == nil {
			return nil
		}
		prev := p0.groups
		for l := ExactLines; l <= AnyValue; l++ {
			cur := partitionOfC(c, s, l)
			if cur == nil {
				break
			}
			for _, grp := range prev {
				tgt := -1
				for _, id := range grp {
					if tgt == -1 {
						tgt = cur.of[id]
					} else if cur.of[id] != tgt {
						return &h.Viol{Fingerprint: "C05/not-a-refinement", Summary: fmt.Sprintf("partition at %s does not refine partition at %s", levelNames[l-1], levelNames[l])}
					}
				}
			}
			prev = cur.groups
		}
	}
	return nil
}

func partitionOfC(c *aggCase, s *Snapshot, l Similarity) *partitionT {
	a := c.aggs[l]
	if a == nil {
		var p string
		a, p = safeAggregate(s, l)
		if p != "" {
			return nil
		}
	}
	pt := &partitionT{of: map[int]int{}}
	for i, b := range a.Buckets {
		pt.groups = append(pt.groups, b.IDs)
		for _, id := range b.IDs {
			pt.of[id] = i
		}
	}
	return pt
}

type partitionT struct {
	groups [][]int
	of     map[int]int
}

func TestVerifC05(t *testing.T) {
	runAggCheck(t, "C05", oracleC05,
		"same enumeration as C04; oracle: co-membership iff equal reference key(level); refinement between levels; every arrival order must give the reference partition; non-trivial = the multiset has a pair of goroutines whose reference keys differ at ExactFlags and agree at AnyValue, or >=2 equal",
		func(c *aggCase, s *Snapshot) bool {
			if len(c.idx) < 2 {
				return false
			}
			for i := range s.Goroutines {
				for j := i + 1; j < len(s.Goroutines); j++ {
					if cachedRefKey(c, s, i, AnyValue) == cachedRefKey(c, s, j, AnyValue) {
						return true
					}
				}
			}
			return false
		})
}

// ---- C12 -----------------------------------------------------------------------------

func oracleC12(c *aggCase, s *Snapshot, level Similarity, a *Aggregated) *h.Viol {
	if v := oracleC12Core(s, level, a, ""); v != nil {
		return v
	}
	// the same goroutines as a race report's (an address and an access kind on each):
	// the aggregation has no business looking at those; small cases, first arrival order
	if len(c.idx) <= 3 && c.first == 0 && (len(c.perm) < 2 || c.perm[0] == 0) {
		rs := c.snapshot()
		for i, g := range rs.Goroutines {
			g.RaceAddr, g.RaceWrite = 0xc000014100+uint64(i), i%2 == 0
		}
		ra, p := safeAggregate(rs, level)
		if p != "" {
			return &h.Viol{Fingerprint: "C12/race-snapshot:panic", Summary: "Aggregate on the same goroutines with race fields set panicked: " + firstLine(p)}
		}
		if v := oracleC12Core(rs, level, ra, ":race-snapshot"); v != nil {
			v.Summary = "the same goroutines with race fields set: " + v.Summary
			return v
		}
	}
	return nil
}

func oracleC12Core(s *Snapshot, level Similarity, a *Aggregated, tag string) *h.Viol {
	byID := map[int]*Goroutine{}
	for _, g := range s.Goroutines {
		byID[g.ID] = g
	}
	for bi, b := range a.Buckets {
		var members []*Goroutine
		for _, id := range b.IDs {
			if g := byID[id]; g != nil {
				members = append(members, g)
			}
		}
		if len(members) == 0 {
			continue // C04's business
		}
		if msg := checkBucketSignature(b, members); msg != "" {
			cat := "signature"
			switch {
			case strings.Contains(msg, "sleep"):
				cat = "sleep-range"
			case strings.Contains(msg, "locked"):
				cat = "locked"
			case strings.Contains(msg, "instead of *"):
				cat = "differing-arg-not-starred"
			case strings.Contains(msg, "common value"):
				cat = "common-arg-altered"
			case strings.Contains(msg, "creator"):
				cat = "creator"
			case strings.Contains(msg, "state"):
				cat = "state"
			}
			return &h.Viol{Fingerprint: "C12/" + cat + tag, Summary: fmt.Sprintf("bucket %d (ids %v) at %s: %s", bi, b.IDs, levelNames[level], msg), Observed: describeBuckets(a)}
		}
	}
	return nil
}

func TestVerifC12(t *testing.T) {
	runAggCheck(t, "C12", oracleC12,
		"same enumeration as C04; oracle: every bucket's signature equals the per-position generalisation of its members (common value kept, differing value starred, sleep = min/max, locked = OR, state/creator/frames identical); non-trivial = some bucket at some level has >=2 members that are not exactly equal",
		func(c *aggCase, s *Snapshot) bool {
			for i := range s.Goroutines {
				for j := i + 1; j < len(s.Goroutines); j++ {
					gi, gj := s.Goroutines[i], s.Goroutines[j]
					if cachedRefKey(c, s, i, AnyValue) == cachedRefKey(c, s, j, AnyValue) && (cachedRefKey(c, s, i, ExactFlags) != cachedRefKey(c, s, j, ExactFlags) || gi.SleepMin != gj.SleepMin) {
						return true
					}
				}
			}
			return false
		})
}

// threeRelated: at least three members of the multiset share the AnyValue key.
func threeRelated(u []sigAttr, idx []int, keys []string) bool {
	cnt := map[string]int{}
	for _, i := range idx {
		cnt[keys[i]]++
		if cnt[keys[i]] >= 3 {
			return true
		}
	}
	return false
}

var refKeyCache = map[[3]int]string{}

// cachedRefKey is refKey for the goroutine at position pos of a small case, memoised
// on (variant, named, level).
func cachedRefKey(c *aggCase, s *Snapshot, pos int, level Similarity) string {
	if c.idx == nil {
		return refKey(s.Goroutines[pos], level)
	}
	ck := [3]int{c.idx[c.perm[pos]], b2i(c.named), int(level)}
	k, ok := refKeyCache[ck]
	if !ok {
		k = refKey(s.Goroutines[pos], level)
		refKeyCache[ck] = k
	}
	return k
}

func b2i(b bool) int {
	if b {
		return 1
	}
	return 0
}
