//go:build verif

package stack

// C11: streaming progress. Streams delivered in pieces by a scripted reader; every
// Read call is the observation point "the source would block now".

import (
	"bytes"
	"fmt"
	"io"
	"strings"
	"testing"

	"github.com/maruel/panicparse/v2/internal/verifx/h"
	"github.com/maruel/panicparse/v2/internal/verifx/rline"
)

var c11StreamDefs = [][]string{
	{"OTHERhello", "OTHERpanic", "BLANK", "HDR1", "FUNCargs", "FILE", "CREATED", "FILEsp", "BLANK", "HDR2", "FUNC", "FILEann", "OTHERexit", "OTHERhello"},
	{"OTHERhello", "HDR1", "FUNC", "FILE", "BLANK", "OTHERhello", "OTHERpanic", "HDR2", "UNAVAIL", "BLANK", "OTHERexit", "OTHERhello", "OTHERhello"},
	{"OTHERhello", "SEP", "WARN", "OPHDRr7", "RFUNC", "RFILE", "BLANK", "PREVw8", "RFUNC", "RFILE", "BLANK", "GHDR7", "RFUNC", "RFILE", "BLANK", "GHDR8", "RFUNC", "RFILE", "SEP", "OTHERexit", "OTHERhello"},
	{"OTHERhello", "SEP", "OTHERpanic", "SEP", "WARN", "OTHERhello", "HDR1", "FUNC", "FILE", "ELIDEDnew", "OTHERexit"},
	{"P.OTHER", "P.HDR1", "P.FUNC", "P.FILE", "P.BLANK", "P.HDR2", "P.FUNCargs", "P.FILE", "OTHERhello", "OTHERexit"},
	{"OTHERhello", "BLANK", "BLANK", "FUNC", "FILE", "CREATED", "OTHERexit", "GHDR7", "WARN", "OTHERhello"},
	{"HDR1", "FUNC", "FILE", "BLANK", "HDR2", "FUNCbadargs", "OTHERhello", "OTHERexit"},
	{"OTHERhello", "HDR3ann", "FUNCesc", "FILE", "CREATEDin", "FILE", "OTHERhello", "OTHERpanic", "OTHER$"},
	{"OTHERhello", "SEP", "HDR1", "FUNC", "FILE", "BLANK", "HDR2", "FUNC", "FILE", "OTHERexit", "OTHERhello"},
	{"OTHERhello", "SEP", "WARN", "HDR1", "FUNC", "FILE", "OTHERexit", "OTHERhello"},
	{"OTHERhello", "SEP", "SEP", "WARN", "OPHDRr7", "RFUNC", "RFILE", "BLANK", "GHDR7", "RFUNC", "RFILE", "SEP", "OTHERexit", "OTHERhello"},
	{"SEP", "WARN", "SEP", "WARN", "OPHDRw7", "RFUNC", "RFILE", "BLANK", "GHDR7", "RFUNC", "RFILE", "SEP", "SEP", "OTHERhello", "OTHERexit"},
}

func c11Stream(def []string, crlf bool) []rline.Line {
	alpha := alphabet(crlf)
	by := map[string]int{}
	for i, s := range alpha {
		by[s.name] = i
	}
	var out []rline.Line
	for _, n := range def {
		i, ok := by[n]
		if !ok {
			panic("unknown symbol " + n)
		}
		out = append(out, alpha[i].l)
	}
	return out
}

type recWriter struct {
	buf bytes.Buffer
}

func (w *recWriter) Write(p []byte) (int, error) { return w.buf.Write(p) }

// monitorRun runs the resume loop over one delivery schedule with the monitor
// installed and returns the first violation message.
func monitorRun(lines []rline.Line, pred []rline.Call, chunks []int, opts *Opts) (cat, msg string) {
	var data []byte
	offsets := make([]int, len(lines)+1)
	for i, l := range lines {
		data = append(data, l.Bytes()...)
		offsets[i+1] = len(data)
	}
	isPass := make([]bool, len(lines))
	for _, p := range pred {
		for _, i := range p.Pass {
			isPass[i] = true
		}
		for _, i := range p.HeldAtEOF {
			isPass[i] = true
		}
	}
	w := &recWriter{}
	sr := &scriptReader{data: data, chunks: chunks}
	callIdx := 0
	sr.onRead = func(s *scriptReader, _ []byte) {
		if cat != "" {
			return
		}
		D := s.off
		// (1) complete pass-through lines delivered so far are written, except a look-ahead tail
		c := 0
		for c < len(lines) && offsets[c+1] <= D {
			c++
		}
		exemptFrom := c - 1
		if c >= 2 && lines[c-1].Kind == rline.WARN && lines[c-2].Kind == rline.SEP && lines[c-1].Indent == "" {
			exemptFrom = c - 2
		}
		var needed []byte
		for i := 0; i < c && i < exemptFrom; i++ {
			if isPass[i] {
				needed = append(needed, lines[i].Bytes()...)
			}
		}
		got := w.buf.Bytes()
		if len(got) < len(needed) || !bytes.Equal(got[:len(needed)], needed) {
			cat = "complete-line-withheld"
			msg = fmt.Sprintf("source blocks after %d bytes (%d complete lines): written so far %q, but the complete pass-through lines before the last one are %q", D, c, trunc(string(got)), trunc(string(needed)))
			return
		}
		// (2) the line that ends the current dump is already delivered, yet more input is requested
		if callIdx < len(pred) && !pred[callIdx].AtEOF {
			p := pred[callIdx]
			T := 0
			if raceFooter(lines, p) {
				T = offsets[p.Next] // the closing separator itself ends the report
			} else {
				T = offsets[p.Next+1] // the first line that cannot continue the dump is complete
			}
			if D >= T {
				cat = "reads-past-dump-end"
				msg = fmt.Sprintf("call %d: the line that ends the dump is complete at offset %d, %d bytes are delivered, and more input is requested before returning", callIdx, T, D)
			}
		}
	}
	var suffix []byte
	for n := 0; n < len(lines)+3; n++ {
		in := io.MultiReader(bytes.NewReader(suffix), sr)
		var s *Snapshot
		var err error
		var pnc string
		func() {
			defer func() {
				if e := recover(); e != nil {
					pnc = fmt.Sprint(e)
				}
			}()
			s, suffix, err = ScanSnapshot(in, w, opts)
		}()
		_ = s
		if pnc != "" {
			return "panic", pnc
		}
		if cat != "" {
			return cat, msg
		}
		callIdx++
		if err == io.EOF {
			break
		}
		if err != nil && len(suffix) == 0 && len(sr.unread()) == 0 {
			break
		}
	}
	return cat, msg
}

// raceFooter reports whether the predicted call ended by consuming a closing separator.
func raceFooter(lines []rline.Line, p rline.Call) bool {
	if len(p.Dump) == 0 {
		return false
	}
	last := p.Dump[len(p.Dump)-1]
	return lines[last].Kind == rline.SEP && last == p.Next-1 && len(p.Gs) > 0 && p.Gs[0].Race
}

func TestVerifC11(t *testing.T) {
	r := h.Start("C11")
	defer r.Finish(func(s string) { t.Error(s) })
	N := bufLen()
	r.Set("reader_buffer_bytes", N)
	r.Set("rule", "12 labelled streams (junk / dump / junk, two dumps, race report, preamble look-alikes, indented, malformed) x LF/CRLF x all chunkings with <=2 (thorough 3) split points + byte-at-a-time + line-at-a-time, real and 64-byte buffers; a monitor runs at every Read call (the source would block now): every complete pass-through line delivered so far except the last complete one (or a held race preamble of <=2 lines) is already written; once the line ending the current dump is delivered no further input is requested before ScanSnapshot returns. non-trivial = at least one split inside a dump; distinct = (stream, eol, chunking)")
	r.Set("assumptions", []string{"pass-through lines are those the reference automaton classifies so on the full stream", "a '==================' [+ 'WARNING: DATA RACE'] preamble needs two lines of look-ahead by the report format itself; it is exempt while it is the tail of the delivered lines"})
	if rv := r.ReplayFile(); rv != nil {
		t.Logf("replay %s: %s", rv.Key, rv.Summary)
		return
	}
	opts := plainOpts()
	seq := 0
	for di, def := range c11StreamDefs {
		for _, crlf := range []bool{false, true} {
			lines := c11Stream(def, crlf)
			pred := rline.Predict(lines)
			var data []byte
			var lineEnds []int
			for _, l := range lines {
				data = append(data, l.Bytes()...)
				lineEnds = append(lineEnds, len(data))
			}
			n := len(data)
			try := func(desc string, chunks []int, nontrivial bool) {
				seq++
				if !r.MineIdx(seq) || r.Expired() {
					return
				}
				key := fmt.Sprintf("stream%d crlf=%v N=%d %s", di, crlf, N, desc)
				v := r.Check(func() *h.Viol {
					cat, msg := monitorRun(lines, pred, append([]int{}, chunks...), opts)
					if cat == "" {
						return nil
					}
					vv := &h.Viol{Fingerprint: "C11/" + cat, Summary: fmt.Sprintf("stream %d (%s) delivery %s: %s", di, strings.Join(def, " "), desc, msg), Key: key, Kind: "monitor"}
					vv.SetInput(data)
					return vv
				})
				out := "ok"
				if v != nil {
					out = v.Fingerprint
				}
				r.Record(key, nontrivial, out+fmt.Sprint(di))
			}
			ones := make([]int, n)
			for i := range ones {
				ones[i] = 1
			}
			try("byte-at-a-time", ones, true)
			var perLine []int
			prev := 0
			for _, e := range lineEnds {
				perLine = append(perLine, e-prev)
				prev = e
			}
			try("line-at-a-time", perLine, true)
			try("all-at-once", nil, false)
			maxSplits := 2
			if r.Thorough() {
				maxSplits = 3
			}
			var rec func(from int, cur []int)
			rec = func(from int, cur []int) {
				if len(cur) > 0 {
					cs := make([]int, 0, len(cur))
					p := 0
					for _, c := range cur {
						cs = append(cs, c-p)
						p = c
					}
					try(fmt.Sprintf("splits=%v", cur), cs, true)
				}
				if len(cur) == maxSplits {
					return
				}
				st := 1
				if len(cur) == 2 {
					st = 5
				}
				for p := from; p < n; p += st {
					rec(p+1, append(cur, p))
				}
			}
			rec(1, nil)
			if di%3 == 0 && !crlf {
				r.Sample(map[string]any{"stream": def, "deliveries": "byte-at-a-time, line-at-a-time, all chunkings with <=2/3 split points", "monitor": "at every Read call"})
			}
		}
	}
}
