//go:build verif

package stack

// Plain replays of the defects that were found and repaired (D1-D12; D13 is a data race, re-detected by the race pass of C14) (DESIGN.md section
// 10): each entry is the concrete failing input with the assertion it violated,
// runnable without any explorer. A returning defect is reported under the
// fingerprint "<prop>/regression:<name>".

import (
	"bytes"
	"fmt"
	"html/template"
	"io"
	"os"
	"path/filepath"
	"strings"
	"testing"

	"github.com/maruel/panicparse/v2/internal/verifx/h"
)

type regressCase struct {
	prop, name string
	run        func(root string) string // "" = fine
}

func parse(in string, opts *Opts) scanResult { return scanOnce(strings.NewReader(in), opts) }

var regressCases = []regressCase{
	{"C01", "D10-plus-in-package-path", func(string) string {
		r := parse("goroutine 1 [running]:\nexample.com/c++/lib%2ev2.(*T).Func()\n\t/a/b.go:1 +0x1\n", &Opts{})
		if r.snap == nil || r.snap.Goroutines[0].Stack.Calls[0].Func.ImportPath != "example.com/c++/lib.v2" {
			return "package path with '+' not demangled to example.com/c++/lib.v2"
		}
		return ""
	}},
	{"C01", "D1-indented-second-goroutine", func(string) string {
		r := parse("  goroutine 1 [running]:\n  main.main()\n  \t/a/b.go:1 +0x1\n  \n  goroutine 2 [select]:\n  main.f()\n  \t/a/b.go:2 +0x1\n", &Opts{})
		if r.snap == nil || len(r.snap.Goroutines) != 2 || r.snap.Goroutines[1].Stack.Calls[0].Func.ImportPath != "main" || r.snap.Goroutines[1].Stack.Calls[0].RemoteSrcPath != "/a/b.go" {
			return "second goroutine of an indented dump parsed with the indentation attached"
		}
		return ""
	}},
	{"C01", "D1b-indented-dump-after-unindented", func(string) string {
		r := parse("goroutine 1 [running]:\nmain.main()\n\t/a/b.go:1 +0x1\n\n  goroutine 2 [select]:\n  main.f()\n  \t/a/b.go:2 +0x1\n", &Opts{})
		if r.snap == nil {
			return "no snapshot"
		}
		for _, g := range r.snap.Goroutines {
			for _, c := range g.Stack.Calls {
				if strings.HasPrefix(c.Func.ImportPath, " ") || strings.HasPrefix(c.RemoteSrcPath, "\t") {
					return "a frame was parsed with indentation attached"
				}
			}
		}
		return ""
	}},
	{"C07", "D4-separator-after-goroutine-dump", func(string) string {
		in := "goroutine 1 [running]:\nmain.main()\n\t/a/b.go:1 +0x1\n\n==================\nWARNING: DATA RACE\nRead at 0x00c000014100 by goroutine 7:\n  main.r()\n      /a/b.go:1 +0x1\n\nGoroutine 7 (running) created at:\n  main.m()\n      /a/b.go:2 +0x1\n==================\n"
		calls, term := resumeLoop([]byte(in), &Opts{}, 10)
		n := 0
		for _, c := range calls {
			if c.panicked != "" {
				return "panic: " + firstLine(c.panicked)
			}
			if c.snap != nil {
				n++
			}
		}
		if !term || n != 2 {
			return fmt.Sprintf("%d snapshots for a goroutine dump followed by a race report, want 2", n)
		}
		return ""
	}},
	{"C02", "D2-text-after-race-footer", func(string) string {
		in := "==================\nWARNING: DATA RACE\nRead at 0x00c000014100 by goroutine 7:\n  main.r()\n      /a/b.go:1 +0x1\n\nGoroutine 7 (running) created at:\n  main.m()\n      /a/b.go:2 +0x1\n==================\nafter1\nafter2\n"
		r := parse(in, &Opts{})
		if string(r.suffix) != "after1\nafter2\n" {
			return fmt.Sprintf("remainder after the closing separator is %q", r.suffix)
		}
		return ""
	}},
	{"C02", "D8-stray-separator-lost", func(string) string {
		calls, _ := resumeLoop([]byte("a\n==================\nb\n==================\nWARNING: DATA RACE\nc\n"), &Opts{}, 10)
		if got := string(passThrough(calls)); got != "a\n==================\nb\n==================\nWARNING: DATA RACE\nc\n" {
			return fmt.Sprintf("pass-through is %q", got)
		}
		for _, c := range calls {
			if c.err != nil && c.err != io.EOF {
				return "text that is not a dump reported error " + c.err.Error()
			}
		}
		return ""
	}},
	{"C07", "D8-dump-directly-after-stray-separator", func(string) string {
		r := parse("==================\ngoroutine 1 [running]:\nmain.main()\n\t/a/b.go:1 +0x1\n", &Opts{})
		if r.snap == nil || len(r.snap.Goroutines) != 1 || string(r.prefix) != "==================\n" {
			return "a dump directly after a stray separator is not recognised (or the separator is not forwarded)"
		}
		return ""
	}},
	{"C03", "D3-escape-after-package-dot", func(string) string {
		for _, in := range []string{"goroutine 1 [running]:\na.%2e%2e()\n\t/a/b.go:1 +0x1\n", "goroutine 1 [running]:\nmain.foo%2ebar()\n\t/a/b.go:1 +0x1\n", "goroutine 1 [running]:\n%2e%2e()\n\t/a/b.go:1 +0x1\n"} {
			r := parse(in, &Opts{})
			if r.panicked != "" {
				return "panic: " + firstLine(r.panicked)
			}
		}
		r := parse("goroutine 1 [running]:\nmain.foo%2ebar()\n\t/a/b.go:1 +0x1\n", &Opts{})
		if r.snap == nil || r.snap.Goroutines[0].Stack.Calls[0].Func.ImportPath != "main" {
			return "main.foo%2ebar split wrongly"
		}
		return ""
	}},
	{"C06", "D5-bucket-tie-order", func(string) string {
		in := "goroutine 1 [running]:\nmain.main()\n\t/a/m.go:1 +0x1\n\ngoroutine 2 [select]:\nmain.f(0x1)\n\t/a/b.go:10 +0x1\n\ngoroutine 3 [select]:\nmain.f(0x2)\n\t/a/b.go:10 +0x1\n\ngoroutine 4 [select]:\nmain.f(0x3)\n\t/a/b.go:10 +0x1\n"
		first := ""
		for i := 0; i < 200; i++ {
			r := parse(in, &Opts{})
			d := describeBuckets(r.snap.Aggregate(AnyPointer))
			if first == "" {
				first = d
			} else if d != first {
				return "bucket order of tying buckets changes between executions"
			}
		}
		return ""
	}},
	{"C06", "D6-nested-modules", func(root string) string {
		c06FS(root)
		in := fmt.Sprintf("goroutine 1 [running]:\nmain.main()\n\t%[1]s/run/main.go:3 +0x1\n\ngoroutine 2 [select]:\nexample.com/m.X()\n\t%[1]s/m/x.go:10 +0x1\n\ngoroutine 3 [select]:\nexample.com/m/sub.Y()\n\t%[1]s/m/sub/y.go:11 +0x1\n", root)
		first := ""
		for i := 0; i < 200; i++ {
			r := parse(in, &Opts{GuessPaths: true, LocalGOROOT: root + "/goroot"})
			d := canonSnapshot(r.snap)
			if first == "" {
				first = d
			} else if d != first {
				return "frames under nested module roots resolve differently between executions"
			}
		}
		return ""
	}},
	{"C17", "D11-repository-segment-not-escaped", func(string) string {
		s := c17Base(false)
		s.Goroutines[0].Stack.Calls[0].RelSrcPath = "github.com/user/a?q=1#frag@v1.2.3/f.go"
		var b bytes.Buffer
		if err := s.ToHTML(&b, template.HTML("")); err != nil {
			return err.Error()
		}
		if strings.Contains(b.String(), "github.com/user/a?q=1") {
			return "the repository segment of a source link is not URL-escaped"
		}
		return ""
	}},
	{"C18", "D12-root-without-src-component", func(root string) string {
		c06FS(root)
		r := parse("goroutine 1 [running]:\nfmt.Println()\n\t/x/fmt/print.go:10 +0x1\n", &Opts{GuessPaths: true, LocalGOROOT: root + "/goroot"})
		if r.panicked != "" {
			return "panic: " + firstLine(r.panicked)
		}
		if r.snap == nil || r.snap.RemoteGOROOT != "" || r.snap.Goroutines[0].Stack.Calls[0].Location != LocationUnknown {
			return "/x/fmt/print.go (no src component) was resolved against the Go root"
		}
		return ""
	}},
	{"C19", "D9-map-parameter-one-word", func(root string) string {
		dir := filepath.Join(root, "d9")
		_ = os.MkdirAll(dir, 0o755)
		_ = os.WriteFile(filepath.Join(dir, "go.mod"), []byte("module example.com/d9\n"), 0o644)
		_ = os.WriteFile(filepath.Join(dir, "main.go"), []byte("package main\n\nfunc f(m map[string]int, x, y int) {\n\tpanic(1)\n}\n\nfunc main() {\n\tf(nil, 3, 5)\n}\n"), 0o644)
		r := parse(fmt.Sprintf("goroutine 1 [running]:\nmain.f(0xc000012345, 0x3, 0x5)\n\t%[1]s/main.go:4 +0x1\nmain.main()\n\t%[1]s/main.go:8 +0x1\n", dir), &Opts{GuessPaths: true, AnalyzeSources: true})
		if r.snap == nil {
			return "no snapshot"
		}
		if got := strings.Join(r.snap.Goroutines[0].Stack.Calls[0].Args.Processed, ", "); got != "map[string]int(0xc000012345), 3, 5" {
			return "f(m map[string]int, x, y int) rendered as " + got
		}
		return ""
	}},
	{"C19", "D7-zero-receivers", func(root string) string {
		dir := filepath.Join(root, "d7")
		_ = os.MkdirAll(dir, 0o755)
		_ = os.WriteFile(filepath.Join(dir, "go.mod"), []byte("module example.com/d7\n"), 0o644)
		_ = os.WriteFile(filepath.Join(dir, "main.go"), []byte("package main\n\nfunc () f(x int) {\n\tpanic(1)\n}\n"), 0o644)
		r := parse(fmt.Sprintf("goroutine 1 [running]:\nmain.f(0x3)\n\t%s/main.go:4 +0x1\n", dir), &Opts{GuessPaths: true, AnalyzeSources: true})
		if r.panicked != "" {
			return "panic: " + firstLine(r.panicked)
		}
		return ""
	}},
}

func TestVerifRegress(t *testing.T) {
	prop := os.Getenv("VERIF_PROP_ID")
	r := h.Start(prop)
	defer r.Finish(func(s string) { t.Error(s) })
	if r.Shard != 0 || r.ReplayFile() != nil {
		return
	}
	root, err := os.MkdirTemp(os.Getenv("VERIF_SCRATCH"), "regress")
	if err != nil {
		t.Fatal(err)
	}
	defer os.RemoveAll(root)
	for _, c := range regressCases {
		if c.prop != prop && prop != "" {
			continue
		}
		msg := ""
		func() {
			defer func() {
				if e := recover(); e != nil {
					msg = fmt.Sprint("panic: ", e)
				}
			}()
			msg = c.run(root)
		}()
		if msg != "" {
			r.Report(&h.Viol{Fingerprint: c.prop + "/regression:" + c.name, Summary: "a repaired defect is back (" + c.name + "): " + msg, Key: "regress " + c.name, Kind: "regress", Reproduced: 5})
		}
		r.Record("regress "+c.name, true, fmt.Sprint(msg == ""))
		r.Add("fixed_defect_replays", 1)
	}
}
