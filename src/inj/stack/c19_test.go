//go:build verif

package stack

// C19: source-based argument augmentation. A generated Go program (all parameter
// lists of length 1..2, thorough 3, over 21 kinds, as functions and as
// pointer-receiver methods, boundary values) is built with -gcflags '-N -l' by the
// installed toolchain, crashed with every case parked in its callee, and its real
// traceback is parsed against the sources; then against mismatching source trees.

import (
	"bytes"
	"fmt"
	"os"
	"os/exec"
	"path/filepath"
	"regexp"
	"strings"
	"testing"
	"time"

	"github.com/maruel/panicparse/v2/internal/verifx/h"
)

type c19Val struct {
	setup string // statements before the call (may declare vN)
	expr  string // argument expression
	want  string // regexp of the expected rendering
}

type c19Kind struct {
	typ  string
	vals []c19Val
}

const ptrRe = `(0x[0-9a-f]+|#\d+)`

func lit(expr, want string) c19Val { return c19Val{"", expr, regexp.QuoteMeta(want)} }

var c19Kinds = []c19Kind{
	{"bool", []c19Val{lit("true", "true"), lit("false", "false")}},
	{"int", []c19Val{lit("0", "0"), lit("1", "1"), lit("-1", "-1"), lit("9223372036854775807", "9223372036854775807"), lit("-9223372036854775808", "-9223372036854775808")}},
	{"int8", []c19Val{lit("0", "0"), lit("-1", "-1"), lit("127", "127"), lit("-128", "-128")}},
	{"int16", []c19Val{lit("7", "7"), lit("-1", "-1"), lit("32767", "32767"), lit("-32768", "-32768")}},
	{"int32", []c19Val{lit("0", "0"), lit("-1", "-1"), lit("2147483647", "2147483647"), lit("-2147483648", "-2147483648")}},
	{"int64", []c19Val{lit("3", "3"), lit("-1", "-1"), lit("9223372036854775807", "9223372036854775807"), lit("-9223372036854775808", "-9223372036854775808")}},
	{"uint", []c19Val{lit("0", "0"), lit("1", "1"), lit("18446744073709551615", "18446744073709551615")}},
	{"uint8", []c19Val{lit("0", "0"), lit("255", "255"), lit("7", "7")}},
	{"uint16", []c19Val{lit("9", "9"), lit("65535", "65535")}},
	{"uint32", []c19Val{lit("0", "0"), lit("4294967295", "4294967295")}},
	{"uint64", []c19Val{lit("5", "5"), lit("18446744073709551615", "18446744073709551615"), lit("9223372036854775808", "9223372036854775808")}},
	{"float32", []c19Val{lit("0", "0"), lit("2.5", "2.5"), lit("-1.5", "-1.5"), lit("3.4028235e+38", "3.4028235e+38"), lit("1e-45", "1e-45"), {"", "float32(nan)", "NaN"}, {"", "float32(negzero)", "-0"}}},
	{"float64", []c19Val{lit("0", "0"), lit("2.5", "2.5"), lit("-1.5", "-1.5"), lit("1.7976931348623157e+308", "1.7976931348623157e+308"), lit("5e-324", "5e-324"), {"", "nan", "NaN"}, {"", "negzero", "-0"}, {"", "posinf", `\+Inf`}}},
	{"string", []c19Val{{"", `""`, `string\(` + ptrRe + `, len=0\)`}, {"", `"abc"`, `string\(` + ptrRe + `, len=3\)`}, {"", "long300", `string\(` + ptrRe + `, len=300\)`}}},
	{"[]int", []c19Val{{"", "nil", `\[\]int\(` + ptrRe + ` len=0 cap=0\)`}, {"", "[]int{1, 2, 3}", `\[\]int\(` + ptrRe + ` len=3 cap=3\)`}, {"", "make([]int, 2, 5)", `\[\]int\(` + ptrRe + ` len=2 cap=5\)`}}},
	{"[]string", []c19Val{{"", "nil", `\[\]string\(` + ptrRe + ` len=0 cap=0\)`}, {"", `[]string{"a"}`, `\[\]string\(` + ptrRe + ` len=1 cap=1\)`}}},
	{"*int", []c19Val{{"", "nil", `\*int\(0x0\)`}, {"", "&anInt", `\*int\(` + ptrRe + `\)`}}},
	{"*T", []c19Val{{"", "nil", `\*T\(0x0\)`}, {"", "&T{}", `\*T\(` + ptrRe + `\)`}}},
	{"map[string]int", []c19Val{{"", "nil", `map\[string\]int\(0x0\)`}, {"", `map[string]int{"a": 1}`, `map\[string\]int\(` + ptrRe + `\)`}}},
	{"chan int", []c19Val{{"", "nil", `chan int\(0x0\)`}, {"", "make(chan int)", `chan int\(` + ptrRe + `\)`}}},
	{"func()", []c19Val{{"", "nil", `func\(0x0\)`}, {"", "func() {}", `func\(` + ptrRe + `\)`}}},
}

type c19Case struct {
	name   string // function name f12 / method name m12
	method bool
	kinds  []int
	vals   []int
	// twins: a callee that shares its bare name with another callee of a different
	// signature: a method of the same name on receiver type U, or a function of the
	// same name in package example.com/vp/sub.
	recvU bool
	sub   bool
}

// complete is the symbol of the callee as the traceback prints it.
func (c *c19Case) complete() string {
	switch {
	case c.sub:
		return "example.com/vp/sub." + c.name
	case c.method && c.recvU:
		return "main.(*U)." + c.name
	case c.method:
		return "main.(*T)." + c.name
	}
	return "main." + c.name
}

func (c *c19Case) wants() []string {
	var w []string
	if c.method && c.recvU {
		w = append(w, `\*U\(`+ptrRe+`\)`)
	} else if c.method {
		w = append(w, `\*T\(`+ptrRe+`\)`)
	}
	for i, k := range c.kinds {
		w = append(w, c19Kinds[k].vals[c.vals[i]].want)
	}
	return w
}

func c19Cases(maxLen int) []c19Case {
	var out []c19Case
	n := 0
	var rec func(cur []int)
	rec = func(cur []int) {
		if len(cur) > 0 {
			for _, method := range []bool{false, true} {
				c := c19Case{method: method, kinds: append([]int{}, cur...)}
				for i, k := range cur {
					c.vals = append(c.vals, (n+i*3)%len(c19Kinds[k].vals))
				}
				if method {
					c.name = fmt.Sprintf("m%d", n)
				} else {
					c.name = fmt.Sprintf("f%d", n)
				}
				out = append(out, c)
				n++
			}
		}
		if len(cur) == maxLen {
			return
		}
		for k := range c19Kinds {
			rec(append(cur, k))
		}
	}
	rec(nil)
	// twins of every 5th callee: same bare name, different parameter list
	kindT := -1
	kindPtrInt := -1
	for i, k := range c19Kinds {
		switch k.typ {
		case "*T":
			kindT = i
		case "*int":
			kindPtrInt = i
		}
	}
	base := len(out)
	for i := 0; i < base; i++ {
		if i%5 != 2 && i%5 != 3 {
			continue
		}
		o := out[i]
		tw := c19Case{name: o.name, method: o.method, recvU: o.method, sub: !o.method}
		tw.kinds = append(tw.kinds, (o.kinds[0]+3+i)%len(c19Kinds))
		for k := len(o.kinds) - 1; k >= 0; k-- {
			tw.kinds = append(tw.kinds, o.kinds[k])
		}
		if len(tw.kinds) > maxLen+1 {
			tw.kinds = tw.kinds[:maxLen+1]
		}
		// the runtime prints at most 10 argument words per frame (then "..."): keep the
		// twin's parameter list within that, like the base cases are
		words := func(ks []int) int {
			n := 0
			if tw.method {
				n = 1
			}
			for _, k := range ks {
				switch t := c19Kinds[k].typ; {
				case t == "string":
					n += 2
				case strings.HasPrefix(t, "[]"):
					n += 3
				default:
					n++
				}
			}
			return n
		}
		for len(tw.kinds) > 1 && words(tw.kinds) > 10 {
			tw.kinds = tw.kinds[:len(tw.kinds)-1]
		}
		for k := range tw.kinds {
			if tw.sub && tw.kinds[k] == kindT {
				tw.kinds[k] = kindPtrInt // package sub does not know main's T
			}
			tw.vals = append(tw.vals, (i+1+k*2)%len(c19Kinds[tw.kinds[k]].vals))
		}
		same := len(tw.kinds) == len(o.kinds)
		for k := 0; same && k < len(tw.kinds); k++ {
			same = tw.kinds[k] == o.kinds[k]
		}
		if same {
			continue
		}
		out = append(out, tw)
	}
	return out
}

// c19WriteProgram writes the generated program; returns the list of source files.
func c19WriteProgram(dir string, cases []c19Case, mutate func(src string) string) []string {
	_ = os.MkdirAll(dir, 0o755)
	_ = os.WriteFile(filepath.Join(dir, "go.mod"), []byte("module example.com/vp\n\ngo 1.20\n"), 0o644)
	var files []string
	per := 400
	var calls []string
	// package sub: the twins that are functions
	var sb strings.Builder
	sb.WriteString("package sub\n\n// Park is set by package main.\nvar Park func(int)\n\n")
	nSub := 0
	for _, c := range cases {
		if !c.sub {
			continue
		}
		nSub++
		var params, names []string
		for i, k := range c.kinds {
			params = append(params, fmt.Sprintf("p%d %s", i, c19Kinds[k].typ))
			names = append(names, fmt.Sprintf("p%d", i))
		}
		fmt.Fprintf(&sb, "func %s(%s) {\n\tPark(7)\n}\n\n", c.name, strings.Join(params, ", "))
		fmt.Fprintf(&sb, "// Call%s forwards to %s.\nfunc Call%s(%s) {\n\t%s(%s)\n}\n\n", c.name, c.name, c.name, strings.Join(params, ", "), c.name, strings.Join(names, ", "))
	}
	_ = os.MkdirAll(filepath.Join(dir, "sub"), 0o755)
	_ = os.WriteFile(filepath.Join(dir, "sub", "sub.go"), []byte(sb.String()), 0o644)
	files = append(files, filepath.Join(dir, "sub", "sub.go"))
	for start := 0; start < len(cases); start += per {
		var b strings.Builder
		b.WriteString("package main\n\n")
		for ci := start; ci < start+per && ci < len(cases); ci++ {
			if cases[ci].sub {
				b.WriteString("import \"example.com/vp/sub\"\n\n")
				break
			}
		}
		end := start + per
		if end > len(cases) {
			end = len(cases)
		}
		for _, c := range cases[start:end] {
			var params, args []string
			for i, k := range c.kinds {
				params = append(params, fmt.Sprintf("p%d %s", i, c19Kinds[k].typ))
				args = append(args, c19Kinds[k].vals[c.vals[i]].expr)
			}
			if c.sub {
				fmt.Fprintf(&b, "func callsub%s() {\n\tsub.Call%s(%s)\n}\n\n", c.name, c.name, strings.Join(args, ", "))
				calls = append(calls, "callsub"+c.name)
				continue
			}
			if c.method && c.recvU {
				fmt.Fprintf(&b, "func (r *U) %s(%s) {\n\tpark(7)\n}\n\n", c.name, strings.Join(params, ", "))
				fmt.Fprintf(&b, "func callu%s() {\n\t(&U{}).%s(%s)\n}\n\n", c.name, c.name, strings.Join(args, ", "))
				calls = append(calls, "callu"+c.name)
				continue
			}
			if c.method {
				fmt.Fprintf(&b, "func (r *T) %s(%s) {\n\tpark(7)\n}\n\n", c.name, strings.Join(params, ", "))
				fmt.Fprintf(&b, "func call%s() {\n\t(&T{}).%s(%s)\n}\n\n", c.name, c.name, strings.Join(args, ", "))
			} else {
				fmt.Fprintf(&b, "func %s(%s) {\n\tpark(7)\n}\n\n", c.name, strings.Join(params, ", "))
				fmt.Fprintf(&b, "func call%s() {\n\t%s(%s)\n}\n\n", c.name, c.name, strings.Join(args, ", "))
			}
			calls = append(calls, "call"+c.name)
		}
		src := b.String()
		if mutate != nil {
			src = mutate(src)
		}
		fn := filepath.Join(dir, fmt.Sprintf("cases%03d.go", start/per))
		_ = os.WriteFile(fn, []byte(src), 0o644)
		files = append(files, fn)
	}
	main := `package main

import (
	"math"
	"strings"
	"sync"

	"example.com/vp/sub"
)

type T struct{ a, b int }

type U struct{ c string }

var (
	ready   sync.WaitGroup
	block   = make(chan struct{})
	anInt   = 5
	nan     = math.NaN()
	negzero = math.Copysign(0, -1)
	posinf  = math.Inf(1)
	long300 = strings.Repeat("x", 300)
)

// park takes an argument so that its frame, whose source is always found, is one the
// analysis works on before it reaches the callee's frame.
//
//go:noinline
func park(tag int) {
	ready.Done()
	<-block
}

// filler spans the line numbers at which the generated callees sit in their own files
// (a frame wrongly looked up in this file lands in a function with parameters).
func filler(a int, b string) {
` + strings.Repeat("\t_, _ = a, b\n", 4000) + `}

func main() {
	sub.Park = park
	cases := []func(){` + strings.Join(calls, ", ") + `}
	ready.Add(len(cases))
	for _, c := range cases {
		go c()
	}
	ready.Wait()
	panic("verif: crash on purpose")
}
`
	_ = os.WriteFile(filepath.Join(dir, "main.go"), []byte(main), 0o644)
	return files
}

func c19BuildAndCrash(dir, gobin string) ([]byte, error) {
	env := append(os.Environ(), "GOFLAGS=-mod=mod", "GOPROXY=off", "GOSUMDB=off", "GOTOOLCHAIN=local", "GOMAXPROCS=8", "GOPATH="+filepath.Join(dir, "..", "gopath-build"))
	cmd := exec.Command(gobin, "build", "-gcflags", "all=-N -l", "-o", "prog", ".")
	cmd.Dir = dir
	cmd.Env = env
	if out, err := cmd.CombinedOutput(); err != nil {
		return nil, fmt.Errorf("go build: %v\n%s", err, out)
	}
	run := exec.Command(filepath.Join(dir, "prog"))
	run.Dir = dir
	run.Env = append(os.Environ(), "GOTRACEBACK=all", "GOMAXPROCS=4")
	var stderr bytes.Buffer
	run.Stderr = &stderr
	done := make(chan error, 1)
	if err := run.Start(); err != nil {
		return nil, err
	}
	go func() { done <- run.Wait() }()
	select {
	case <-done:
	case <-time.After(120 * time.Second):
		_ = run.Process.Kill()
		return nil, fmt.Errorf("generated program did not crash within 120s")
	}
	return stderr.Bytes(), nil
}

// canonNoProcessed serialises a snapshot with the typed renderings removed.
func canonNoProcessed(s *Snapshot) string {
	if s == nil {
		return "<nil>"
	}
	var b strings.Builder
	for _, g := range s.Goroutines {
		cp := *g
		cp.Stack.Calls = append([]Call{}, g.Stack.Calls...)
		for i := range cp.Stack.Calls {
			cp.Stack.Calls[i].Args.Processed = nil
		}
		cp.CreatedBy.Calls = append([]Call{}, g.CreatedBy.Calls...)
		for i := range cp.CreatedBy.Calls {
			cp.CreatedBy.Calls[i].Args.Processed = nil
		}
		b.WriteString(canonGoroutine(&cp))
		b.WriteString("\n")
	}
	return b.String()
}

func TestVerifC19(t *testing.T) {
	r := h.Start("C19")
	defer r.Finish(func(s string) { t.Error(s) })
	if rv := r.ReplayFile(); rv != nil {
		t.Logf("replay %s: %s\nexpected %s\nobserved %s", rv.Key, rv.Summary, rv.Expected, rv.Observed)
		return
	}
	maxLen := r.Pick(2, 3)
	root, err := os.MkdirTemp(os.Getenv("VERIF_SCRATCH"), "c19")
	if err != nil {
		t.Fatal(err)
	}
	if rp, err := filepath.EvalSymlinks(root); err == nil {
		root = rp
	}
	defer os.RemoveAll(root)
	cases := c19Cases(maxLen)
	r.Set("rule", fmt.Sprintf("generated program: every parameter list of length 1..%d over %d kinds (bool, sized/unsized ints, floats, string, slices, pointers, map, chan, func), each as a function and as a pointer-receiver method, plus twins of 2 in 5 of them that share the bare name with a different parameter list (a method on another receiver type, a function in another package) (%d callees), boundary values rotating over the kinds' value tables; built with -gcflags 'all=-N -l' by the installed toolchain(s), every case parked in its callee, one real crash under GOTRACEBACK=all; the real traceback is parsed with source analysis on and off; oracle: each rendered argument matches an independent rendering of the literal passed; raw values identical with analysis on and off; rebased part: the dump rewritten to name a build tree that still exists but was edited, with the true sources under the GOPATH given in the options: same oracle; mismatch part: the same dump against the source tree deleted / unparsable / line-shifted / with parameters added or removed / with 0 or 2 receivers / replaced by directories / callees reported under a directory that is under no root: no panic, everything but the typed rendering equal to the un-augmented parse, no rendering when the source is missing or unparsable. programs = toolchains x generated programs; non-trivial = callee with >= 2 parameters or a method", maxLen, len(c19Kinds), len(cases)))
	r.Set("assumptions", []string{"-N -l makes the traceback's argument words accurate", "a shifted line that still falls inside some function cannot be detected from a line number: only harmlessness is required there", "value receivers, variadic parameters, interfaces, structs and arrays are outside the statement's list of kinds"})
	toolchains := []string{"go"}
	if r.Thorough() {
		if _, err := os.Stat("/opt/veriftools/go1.26.8/bin/go"); err == nil {
			toolchains = append(toolchains, "/opt/veriftools/go1.26.8/bin/go")
		}
	}
	for ti, gobin := range toolchains {
		dir := filepath.Join(root, fmt.Sprintf("prog%d", ti))
		files := c19WriteProgram(dir, cases, nil)
		dump, err := c19BuildAndCrash(dir, gobin)
		if err != nil {
			r.Note("toolchain %s: %v", gobin, err)
			r.Set("exhaustive_within_bound", false)
			continue
		}
		r.Add("programs", 1)
		optsOn := &Opts{GuessPaths: true, AnalyzeSources: true, NameArguments: true}
		optsOff := &Opts{GuessPaths: true, AnalyzeSources: false, NameArguments: true}
		on := scanOnce(bytes.NewReader(dump), optsOn)
		off := scanOnce(bytes.NewReader(dump), optsOff)
		mk := func(fp, msg, key string) *h.Viol {
			return &h.Viol{Fingerprint: "C19/" + fp, Summary: msg, Key: key, Kind: "program", Reproduced: 5}
		}
		if on.panicked != "" || off.panicked != "" {
			r.Report(mk("panic:"+firstLine(on.panicked+off.panicked), "parsing the real traceback panicked: "+firstLine(on.panicked+off.panicked), "parse"))
			continue
		}
		if on.snap == nil || off.snap == nil {
			r.Report(mk("no-snapshot", fmt.Sprintf("the real traceback (%d bytes) was not recognised", len(dump)), "parse"))
			continue
		}
		if len(on.snap.Goroutines) < len(cases) {
			r.Report(mk("goroutines-missing", fmt.Sprintf("%d goroutines parsed, the program parked %d", len(on.snap.Goroutines), len(cases)), "parse"))
		}
		if canonNoProcessed(on.snap) != canonNoProcessed(off.snap) {
			r.Report(mk("analysis-changes-raw-fields", "the snapshot with source analysis on differs from the one with analysis off in more than the typed rendering", "raw"))
		}
		// index frames by function name
		checkCases := func(snap *Snapshot, tag string) {
			frameOf := map[string]*Call{}
			for _, g := range snap.Goroutines {
				for i := range g.Stack.Calls {
					c := &g.Stack.Calls[i]
					frameOf[c.Func.Complete] = c
				}
			}
			for ci := range cases {
				c := &cases[ci]
				key := fmt.Sprintf("%s%s tc%d %s(%v)", tag, c.complete(), ti, func() string {
					var ks []string
					for i, k := range c.kinds {
						ks = append(ks, c19Kinds[k].typ+"="+c19Kinds[k].vals[c.vals[i]].expr)
					}
					return strings.Join(ks, ", ")
				}(), c.method)
				fr := frameOf[c.complete()]
				out := "ok"
				switch {
				case fr == nil:
					r.Report(mk("callee-frame-missing", "no frame for callee "+c.name, key))
					out = "missing"
				default:
					wants := c.wants()
					got := fr.Args.Processed
					if len(got) != len(wants) {
						kind := "arity"
						for _, k := range c.kinds {
							switch c19Kinds[k].typ {
							case "map[string]int", "chan int", "func()":
								kind = "one-word-kind-as-interface:" + strings.Fields(c19Kinds[k].typ)[0]
							}
						}
						v := mk(kind, fmt.Sprintf("%s: %d rendered arguments %q for %d parameters", key, len(got), got, len(wants)), key)
						v.Expected, v.Observed = strings.Join(wants, " , "), strings.Join(got, " , ")
						r.Report(v)
						out = kind
						break
					}
					for i := range wants {
						if !regexp.MustCompile("^" + wants[i] + "$").MatchString(got[i]) {
							pk := "receiver"
							idx := i
							if c.method {
								idx--
							}
							if idx >= 0 {
								pk = c19Kinds[c.kinds[idx]].typ
							}
							v := mk("value:"+pk, fmt.Sprintf("%s: argument %d rendered %q, the program passed %s", key, i, got[i], wants[i]), key)
							v.Expected, v.Observed = strings.Join(wants, " , "), strings.Join(got, " , ")
							r.Report(v)
							out = "value:" + pk
							break
						}
					}
				}
				if out == "ok" && fr != nil {
					out = "ok " + h.Hash(strings.Join(c.wants(), ","))
				}
				r.Record(key, len(c.kinds) >= 2 || c.method, out)
				if ci%211 == 3 && fr != nil {
					r.Sample(map[string]any{"callee": key, "rendered": fr.Args.Processed, "raw": fr.Args.String()})
				}
			}
		}
		mkBase := mk
		checkCases(on.snap, "")
		// ---- rebased sources: the dump says the program was built from one tree (which still
		// exists but has been edited since: every callee has one more parameter), the local
		// GOPATH given in the options holds the sources it was really built from ----
		if ti == 0 {
			build := filepath.Join(root, "buildtree", "src", "example.com", "vp")
			snapDir := filepath.Join(root, "snap", "src", "example.com", "vp")
			reSig := regexp.MustCompile(`(?m)^func (\(r \*[TU]\) )?([fm]\d+)\(`)
			for _, f := range append(append([]string{}, files...), filepath.Join(dir, "main.go")) {
				b, err := os.ReadFile(f)
				if err != nil {
					continue
				}
				rel := strings.TrimPrefix(f, dir+"/")
				for _, dst := range []string{filepath.Join(snapDir, rel), filepath.Join(build, rel)} {
					_ = os.MkdirAll(filepath.Dir(dst), 0o755)
				}
				_ = os.WriteFile(filepath.Join(snapDir, rel), b, 0o644)
				_ = os.WriteFile(filepath.Join(build, rel), []byte(reSig.ReplaceAllString(string(b), "func ${1}${2}(extra string, ")), 0o644)
			}
			dump2 := bytes.ReplaceAll(dump, []byte(dir+"/"), []byte(build+"/"))
			reb := scanOnce(bytes.NewReader(dump2), &Opts{GuessPaths: true, AnalyzeSources: true, NameArguments: true, LocalGOPATHs: []string{filepath.Join(root, "snap")}})
			if reb.panicked != "" || reb.snap == nil {
				r.Report(mkBase("rebased:panic-or-no-snapshot", "rebased sources: "+firstLine(reb.panicked), "rebased"))
			} else {
				mk = func(fp, msg, key string) *h.Viol {
					return mkBase("rebased:"+fp, "sources rebased onto the local GOPATH: "+msg, key)
				}
				checkCases(reb.snap, "rebased ")
				mk = mkBase
			}
			_ = os.RemoveAll(filepath.Join(root, "buildtree"))
			_ = os.RemoveAll(filepath.Join(root, "snap"))
		}
		// ---- mismatching sources ----
		if ti == 0 {
			c19Mismatch(r, dir, files, cases, dump, off.snap)
		}
	}
	r.Set("disagreements_checked", 0)
}

func c19Mismatch(r *h.Run, dir string, files []string, cases []c19Case, dump []byte, offSnap *Snapshot) {
	orig := map[string][]byte{}
	for _, f := range files {
		b, _ := os.ReadFile(f)
		orig[f] = b
	}
	restore := func() {
		for f, b := range orig {
			_ = os.RemoveAll(f)
			_ = os.WriteFile(f, b, 0o644)
		}
	}
	defer restore()
	ref := canonNoProcessed(offSnap)
	type variant struct {
		name        string
		apply       func()
		noRendering bool // Processed must be empty for the generated callees
	}
	dumpOf := map[string]func(d []byte) []byte{} // per variant: the dump to parse, when not the program's own
	rewrite := func(f func(s string) string) func() {
		return func() {
			for fn, b := range orig {
				_ = os.WriteFile(fn, []byte(f(string(b))), 0o644)
			}
		}
	}
	variants := []variant{
		{"deleted", func() {
			for f := range orig {
				_ = os.Remove(f)
			}
		}, true},
		{"unparsable", rewrite(func(s string) string { return "package main\n\nfunc {{{ not go\n" + s }), true},
		{"syntax-error-appended", rewrite(func(s string) string { return s + "\nfunc broken( {\n" }), true},
		{"syntax-error-in-first-function", rewrite(func(s string) string { return strings.Replace(s, "\nfunc ", "\nfnc ", 1) }), true},
		{"syntax-error-in-every-third-function", rewrite(func(s string) string {
			parts := strings.Split(s, "\nfunc ")
			for i := 1; i < len(parts); i += 3 {
				parts[i] = "\x00" + parts[i]
			}
			return strings.ReplaceAll(strings.Join(parts, "\nfunc "), "\nfunc \x00", "\nfnc ")
		}), true},
		{"truncated-to-10-lines", rewrite(func(s string) string { return strings.Join(strings.SplitN(s, "\n", 11)[:10], "\n") + "\n" }), false},
		{"empty-file", rewrite(func(s string) string { return "package main\n" }), true},
		{"shifted-3-lines", rewrite(func(s string) string { return strings.Replace(s, "package main\n", "package main\n\n\n\n", 1) }), false},
		{"shifted-1-line", rewrite(func(s string) string { return strings.Replace(s, "package main\n", "package main\n\n", 1) }), false},
		{"parameter-added", rewrite(func(s string) string {
			return regexp.MustCompile(`(?m)^func (\(r \*T\) )?([fm]\d+)\(`).ReplaceAllString(s, "func ${1}${2}(extra int, ")
		}), false},
		{"parameters-removed", rewrite(func(s string) string {
			return regexp.MustCompile(`(?m)^func (\(r \*T\) )?([fm]\d+)\([^)]*\)`).ReplaceAllString(s, "func ${1}${2}()")
		}), false},
		{"two-receivers", rewrite(func(s string) string { return strings.ReplaceAll(s, "func (r *T) ", "func (r, r2 *T) ") }), false},
		{"no-receiver", rewrite(func(s string) string { return strings.ReplaceAll(s, "func (r *T) ", "func () ") }), false},
		{"directory-instead-of-file", func() {
			for f := range orig {
				_ = os.Remove(f)
				_ = os.MkdirAll(f, 0o755)
			}
		}, true},
		{"variadic-and-value-receiver", rewrite(func(s string) string {
			s = regexp.MustCompile(`(?m)^func (\(r \*T\) )?([fm]\d+)\(p0 (\w+)\)`).ReplaceAllString(s, "func ${1}${2}(p0 ...${3})")
			return strings.ReplaceAll(s, "func (r *T) ", "func (r T) ")
		}), false},
	}
	// the sources are all there, but the dump says the generated callees were compiled
	// from files under a directory that is under no root (park(), in main.go, still is):
	// frames whose source cannot be located are left alone whatever was loaded before
	variants = append(variants, variant{"callees-under-no-root", func() {}, true})
	dumpOf["callees-under-no-root"] = func(d []byte) []byte {
		return bytes.ReplaceAll(d, []byte(dir+"/cases"), []byte("/nowhere/at/all/cases"))
	}
	origDump, origRef := dump, ref
	for _, v := range variants {
		restore()
		v.apply()
		dump, ref = origDump, origRef
		if f := dumpOf[v.name]; f != nil {
			dump = f(origDump)
			if off := scanOnce(bytes.NewReader(dump), &Opts{GuessPaths: true, AnalyzeSources: false, NameArguments: true}); off.snap != nil {
				ref = canonNoProcessed(off.snap)
			}
		}
		res := scanOnce(bytes.NewReader(dump), &Opts{GuessPaths: true, AnalyzeSources: true, NameArguments: true})
		key := "mismatch " + v.name
		out := "ok"
		switch {
		case res.panicked != "":
			out = "panic"
			r.Report(&h.Viol{Fingerprint: "C19/mismatch-panic:" + firstLine(res.panicked) + "@" + panicSite(res.panicked), Summary: fmt.Sprintf("sources %s: source analysis panicked: %s", v.name, firstLine(res.panicked)), Key: key, Kind: "mismatch", Observed: res.panicked, Reproduced: 5})
		case res.snap == nil:
			out = "no-snapshot"
			r.Report(&h.Viol{Fingerprint: "C19/mismatch-no-snapshot", Summary: "sources " + v.name + ": no snapshot", Key: key, Reproduced: 5})
		case canonNoProcessed(res.snap) != ref:
			out = "frames-changed"
			r.Report(&h.Viol{Fingerprint: "C19/mismatch-changes-frames:" + v.name, Summary: "sources " + v.name + ": fields other than the typed rendering differ from the un-augmented parse", Key: key, Kind: "mismatch", Reproduced: 5})
		case v.noRendering:
			for _, g := range res.snap.Goroutines {
				for i := range g.Stack.Calls {
					c := &g.Stack.Calls[i]
					if c.Func.IsPkgMain && len(c.Args.Processed) != 0 && strings.Contains(c.RemoteSrcPath, "/cases") {
						out = "rendered-without-source"
						r.Report(&h.Viol{Fingerprint: "C19/mismatch-rendered-without-source:" + v.name, Summary: fmt.Sprintf("sources %s: %s still has a typed rendering %q", v.name, c.Func.Name, c.Args.Processed), Key: key, Kind: "mismatch", Reproduced: 5})
						break
					}
				}
				if out != "ok" {
					break
				}
			}
		}
		r.Record(key, true, out)
		r.Add("mismatching_source_trees", 1)
	}
}
