//go:build verif

package stack

import "fmt"

func init() {
	c14GlobalsFn = func() string {
		return fmt.Sprintf("%q %q %q %q %q %q %q %q %q %q %q | %s %s %s %s %s %s %s %s %s %s %s | %q",
			lockedToThread, raceHeaderFooter, raceHeader, crlf, lf, commaSpace, writeCap, writeLow, threeDots, underscore, inaccurateQuestionMark,
			reRoutineHeader, reMinutes, reUnavail, reFile, reCreated, reFunc, reRaceOperationHeader, reRacePreviousOperationHeader, reRaceGoroutine, reModule, reMethodSymbol, testMainSrc)
	}
}
