//go:build verif

package stack

// C09: reader delivery independence.
// (a) all delivery schedules (every composition of the stream into chunks, EOF
//     with or after the last data, zero-length reads inserted at every position,
//     99 and 100 zero-length reads in a row) of short multi-line streams, on the
//     real reader.readLine in the shrunk-buffer builds (N = 4, 8);
// (b) ScanSnapshot on dump streams in the N = 64 build under every chunking with
//     <= 3 split points and every uniform chunk size;
// (c) the shipped 16 KiB buffer: lines of 16384-2..16384+2, 2*16384+-1, 65537
//     bytes at the start / middle / end of a dump with split points drawn from
//     the boundary-adjacent offsets.

import (
	"bytes"
	"fmt"
	"io"
	"strings"
	"testing"

	"github.com/maruel/panicparse/v2/internal/verifx/gen"
	"github.com/maruel/panicparse/v2/internal/verifx/h"
)

// scriptReader answers Read calls from a script.
type scriptReader struct {
	data        []byte
	off         int
	chunks      []int // successive chunk sizes; once exhausted everything is delivered
	ci          int
	carry       int         // rest of a chunk that did not fit the offered slice
	zeros       map[int]int // index of the data-delivering read -> zero-length reads before it
	zeroLeft    int
	dataReads   int
	eofWithData bool
	failErr     error // delivered instead of io.EOF when the data runs out
	reads       int
	onRead      func(sr *scriptReader, p []byte)
	failOnce    bool // the failure is reported once; later reads report a plain EOF
	failed      bool
	afterEnd    int // Read calls after the end signal was given
	repeatEnd   bool
}

func (s *scriptReader) endErr() error {
	if s.failErr != nil {
		if s.failOnce {
			if s.failed {
				return io.EOF
			}
			s.failed = true
		}
		return s.failErr
	}
	return io.EOF
}

func (s *scriptReader) Read(p []byte) (int, error) {
	s.reads++
	if s.onRead != nil {
		s.onRead(s, p)
	}
	if s.zeroLeft == 0 && s.zeros != nil {
		if z, ok := s.zeros[s.dataReads]; ok {
			s.zeroLeft = z
			delete(s.zeros, s.dataReads)
		}
	}
	if s.zeroLeft > 0 {
		s.zeroLeft--
		return 0, nil
	}
	rem := len(s.data) - s.off
	if rem == 0 {
		s.afterEnd++
		return 0, s.endErr()
	}
	n := rem
	if s.carry > 0 {
		n = s.carry
	} else if s.ci < len(s.chunks) {
		n = s.chunks[s.ci]
		s.ci++
	}
	if n > rem {
		n = rem
	}
	s.carry = 0
	if n > len(p) {
		s.carry = n - len(p)
		n = len(p)
	}
	copy(p, s.data[s.off:s.off+n])
	s.off += n
	s.dataReads++
	if s.off == len(s.data) && s.eofWithData {
		return n, s.endErr()
	}
	return n, nil
}

func (s *scriptReader) unread() []byte { return s.data[s.off:] }

func bufLen() int { var r reader; return len(r.buf) }

// expectedLines splits a stream after each '\n'.
func expectedLines(data []byte) [][]byte { return splitLines(data) }

type readerObs struct {
	states      map[string]struct{}
	transitions int
}

// runReadLine drives the real reader over one schedule and checks it.
func runReadLine(data []byte, sr *scriptReader, obs *readerObs) string {
	rd := &reader{rd: sr}
	sr.onRead = func(s *scriptReader, p []byte) {
		obs.transitions++
		if len(obs.states) < 2000000 {
			obs.states[fmt.Sprintf("%d|%d|%d|%v|%s|%d", s.off, rd.r, rd.w, rd.err, rd.buf[rd.r:rd.w], s.zeroLeft)] = struct{}{}
		}
	}
	exp := expectedLines(data)
	consumed := 0
	for i := 0; ; i++ {
		var line []byte
		var err error
		var p string
		func() {
			defer func() {
				if e := recover(); e != nil {
					p = fmt.Sprint(e)
				}
			}()
			line, err = rd.readLine()
		}()
		if p != "" {
			return "panic: " + p
		}
		line = append([]byte{}, line...)
		if i < len(exp) {
			if !bytes.Equal(line, exp[i]) {
				return fmt.Sprintf("line %d: got %q want %q", i, line, exp[i])
			}
			consumed += len(line)
		} else if len(line) != 0 {
			return fmt.Sprintf("extra line %d: %q", i, line)
		}
		// what was read past the returned line plus the unread input is the rest of the stream
		rest := append(append([]byte{}, rd.buffered()...), sr.unread()...)
		if !bytes.Equal(rest, data[consumed:]) {
			return fmt.Sprintf("after line %d: buffered+unread = %q want %q", i, rest, data[consumed:])
		}
		if err != nil {
			if err != io.EOF {
				return fmt.Sprintf("error %v", err)
			}
			if consumed != len(data) {
				return fmt.Sprintf("EOF after %d of %d bytes", consumed, len(data))
			}
			if i+1 < len(exp) {
				return fmt.Sprintf("EOF after %d of %d lines", i+1, len(exp))
			}
			return ""
		}
		if i > len(exp)+2 {
			return "no EOF"
		}
	}
}

func compositions(n int, f func(chunks []int)) {
	// every composition of n (2^(n-1) split sets)
	if n == 0 {
		f(nil)
		return
	}
	chunks := make([]int, 0, n)
	var rec func(rem int)
	rec = func(rem int) {
		if rem == 0 {
			f(chunks)
			return
		}
		for k := 1; k <= rem; k++ {
			chunks = append(chunks, k)
			rec(rem - k)
			chunks = chunks[:len(chunks)-1]
		}
	}
	rec(n)
}

func c09PartA(t *testing.T, r *h.Run) {
	N := bufLen()
	r.Set("reader_buffer_bytes_part_a", N)
	lengths := []int{0, 1, N - 1, N, N + 1, 2*N + 1}
	maxTotal := 14
	if r.Thorough() {
		lengths = []int{0, 1, N - 2, N - 1, N, N + 1, N + 2, 2 * N, 2*N + 1, 3*N + 1}
		maxTotal = 17
	}
	if N > 4 {
		maxTotal += 3
	}
	obs := &readerObs{states: map[string]struct{}{}}
	mkLine := func(l int, tag byte, nl bool) []byte {
		b := bytes.Repeat([]byte{tag}, l)
		for i := range b {
			b[i] = tag + byte(i%7)
		}
		if nl {
			b = append(b, '\n')
		}
		return b
	}
	var streams [][]byte
	var rec func(prefix []byte, depth int)
	rec = func(prefix []byte, depth int) {
		if depth > 0 {
			streams = append(streams, append([]byte{}, prefix...))
		}
		if depth == 3 {
			return
		}
		for _, l := range lengths {
			if len(prefix)+l+1 > maxTotal {
				continue
			}
			rec(append(append([]byte{}, prefix...), mkLine(l, 'a'+byte(depth*8), true)...), depth+1)
		}
		// unterminated last line
		for _, l := range lengths {
			if l == 0 || len(prefix)+l > maxTotal {
				continue
			}
			streams = append(streams, append(append([]byte{}, prefix...), mkLine(l, 'A'+byte(depth*8), false)...))
		}
	}
	rec(nil, 0)
	r.Set("streams_part_a", len(streams))
	for si, data := range streams {
		if !r.MineIdx(si) || r.Expired() {
			continue
		}
		check := func(kind string, mk func() *scriptReader, desc string) {
			key := fmt.Sprintf("a N=%d %q %s %s", N, data, kind, desc)
			v := r.Check(func() *h.Viol {
				msg := runReadLine(data, mk(), obs)
				if msg == "" {
					return nil
				}
				cat := "line-content"
				switch {
				case strings.HasPrefix(msg, "panic"):
					cat = "panic"
				case strings.Contains(msg, "buffered+unread"):
					cat = "rest"
				case strings.Contains(msg, "EOF") || strings.Contains(msg, "error"):
					cat = "termination"
				}
				vv := &h.Viol{Fingerprint: "C09/readLine/" + cat, Summary: fmt.Sprintf("reader.readLine with buffer %d on stream %q, schedule %s %s: %s", N, data, kind, desc, msg), Key: key, Kind: "readLine"}
				vv.SetInput(data)
				return vv
			})
			out := "ok"
			if v != nil {
				out = v.Fingerprint
			}
			r.Record(key, len(data) > 1, out)
		}
		for _, eofWith := range []bool{false, true} {
			compositions(len(data), func(chunks []int) {
				cs := append([]int{}, chunks...)
				check("chunks", func() *scriptReader {
					return &scriptReader{data: data, chunks: append([]int{}, cs...), eofWithData: eofWith}
				}, fmt.Sprintf("%v eofWithData=%v", cs, eofWith))
			})
			// zero-length reads: 1 or 2 before each data read of the byte-at-a-time and the all-at-once schedules
			for _, unit := range []int{1, len(data) + 1} {
				var cs []int
				for i := 0; i < len(data) && unit == 1; i++ {
					cs = append(cs, 1)
				}
				nReads := len(data) + 1
				for pos := 0; pos < nReads; pos++ {
					for _, z := range []int{1, 2, 99} {
						pos, z := pos, z
						check("zero-reads", func() *scriptReader {
							return &scriptReader{data: data, chunks: append([]int{}, cs...), eofWithData: eofWith, zeros: map[int]int{pos: z}}
						}, fmt.Sprintf("unit=%d %d zero-length reads before data read %d eofWithData=%v", unit, z, pos, eofWith))
					}
				}
			}
		}
		if si%97 == 0 {
			r.Sample(map[string]any{"part": "a", "buffer": N, "stream": string(data), "schedules": "all compositions x EOF mode + zero-read insertions"})
		}
	}
	// 100 zero-length reads in a row is io.ErrNoProgress
	if r.Shard == 0 {
		data := []byte("ab\ncd\n")
		sr := &scriptReader{data: data, chunks: []int{3}, zeros: map[int]int{1: 100}}
		rd := &reader{rd: sr}
		l1, e1 := rd.readLine()
		l1 = append([]byte{}, l1...)
		l2, e2 := rd.readLine()
		if string(l1) != "ab\n" || e1 != nil || len(l2) != 0 || e2 != io.ErrNoProgress {
			r.Report(&h.Viol{Fingerprint: "C09/readLine/no-progress", Summary: fmt.Sprintf("100 zero-length reads: got %q,%v then %q,%v; want \"ab\\n\",nil then \"\",io.ErrNoProgress", l1, e1, l2, e2), Key: "a no-progress", Reproduced: 5})
		}
		r.Record("a no-progress", true, "x")
	}
	r.Add("states", len(obs.states))
	r.Add("transitions", obs.transitions)
}

// ---- (b) and (c): ScanSnapshot level ---------------------------------------------

type deliveryOutcome struct {
	canon string
}

func scanWith(data []byte, sr *scriptReader, opts *Opts) string {
	res := scanOnce(sr, opts)
	if res.panicked != "" {
		return "panic: " + firstLine(res.panicked)
	}
	rest := append(append([]byte{}, res.suffix...), sr.unread()...)
	return fmt.Sprintf("snap=%s\nprefix=%q\nerr=%v\nrest=%q", h.Hash(canonSnapshot(res.snap)), h.Hash(string(res.prefix)), errClass(res.err), h.Hash(string(rest)))
}

func c09Streams() (names []string, streams [][]byte, truths []*gen.Dump) {
	env := genEnv()
	add := func(name string, d *gen.Dump, before, after string) {
		names = append(names, name)
		streams = append(streams, append(append([]byte(before), d.Bytes()...), after...))
		truths = append(truths, d)
	}
	add("plain", gen.GenDump(fixedChooser{"goroutines": 1, "g0.creator": 1, "g0.stack-shape": 1}, env), "panic: x\n\n", "exit status 2\n")
	add("crlf", gen.GenDump(fixedChooser{"crlf": 1, "goroutines": 1, "g1.stack-shape": 6}, env), "log\r\n", "")
	add("indented", gen.GenDump(fixedChooser{"indent": 2, "goroutines": 1, "g0.f0.argshape": 9}, env), "", "tail\n")
	add("unterminated", gen.GenDump(fixedChooser{"no-final-newline": 1, "g0.stack-shape": 1}, env), "x\n", "")
	rc, _ := gen.GenRace(fixedChooser{})
	names = append(names, "race+trailer")
	streams = append(streams, append(append([]byte("out\n"), rc.Bytes()...), "after1\nafter2\n"...))
	truths = append(truths, nil)
	names = append(names, "junk-only")
	streams = append(streams, []byte("just\nsome\r\ntext without dump\n==================\nmore"))
	truths = append(truths, nil)
	return
}

func c09PartB(t *testing.T, r *h.Run) {
	N := bufLen()
	r.Set("reader_buffer_bytes_part_b", N)
	names, streams, truths := c09Streams()
	opts := &Opts{NameArguments: true}
	seq := 0
	for si, data := range streams {
		ref := scanWith(data, &scriptReader{data: data}, opts)
		if truths[si] != nil {
			res := scanOnce(bytes.NewReader(data), plainOpts())
			if cat, msg := cmpDump(res.snap, truths[si]); cat != "" && r.Shard == 0 {
				vv := &h.Viol{Fingerprint: "C09/ground-truth:" + cat, Summary: fmt.Sprintf("stream %s with buffer %d, single read: %s", names[si], N, msg), Key: "b truth " + names[si], Reproduced: 5}
				vv.SetInput(data)
				r.Report(vv)
			}
		}
		n := len(data)
		try := func(desc string, mk func() *scriptReader) {
			seq++
			if !r.MineIdx(seq) || r.Expired() {
				return
			}
			key := fmt.Sprintf("b N=%d %s %s", N, names[si], desc)
			v := r.Check(func() *h.Viol {
				got := scanWith(data, mk(), opts)
				if got == ref {
					return nil
				}
				vv := &h.Viol{Fingerprint: "C09/scan-differs-by-delivery:" + firstDiffField(ref, got), Summary: fmt.Sprintf("stream %s, buffer %d, delivery %s: outcome differs from the single-read delivery in %s", names[si], N, desc, firstDiffField(ref, got)), Key: key, Kind: "scan", Expected: ref, Observed: got}
				vv.SetInput(data)
				return vv
			})
			out := "ok"
			if v != nil {
				out = v.Fingerprint
			}
			r.Record(key, true, out+names[si])
			r.Add("traces_validated_against_impl", 1)
		}
		for _, eofWith := range []bool{false, true} {
			for u := 1; u <= n; u++ {
				u := u
				try(fmt.Sprintf("uniform=%d eofWithData=%v", u, eofWith), func() *scriptReader {
					var cs []int
					for k := 0; k < n; k += u {
						cs = append(cs, u)
					}
					return &scriptReader{data: data, chunks: cs, eofWithData: eofWith}
				})
			}
		}
		// zero-length reads spread over the whole stream: one (and three) before every data
		// read of the byte-at-a-time and 7-byte deliveries (hundreds in total, never 100 in a row)
		for _, u := range []int{1, 7} {
			for _, z := range []int{1, 3, 60} {
				u, z := u, z
				try(fmt.Sprintf("uniform=%d with %d zero-length reads before every read", u, z), func() *scriptReader {
					var cs []int
					zs := map[int]int{}
					for k, i := 0, 0; k < n; k, i = k+u, i+1 {
						cs = append(cs, u)
						zs[i] = z
					}
					return &scriptReader{data: data, chunks: cs, zeros: zs}
				})
			}
		}
		// every chunking with <= maxSplits split points
		step := 1
		maxSplits := 2
		if r.Thorough() {
			maxSplits = 3
			step = 2
		}
		var splits func(from int, cur []int)
		splits = func(from int, cur []int) {
			if len(cur) > 0 {
				cs := make([]int, 0, len(cur)+1)
				prev := 0
				for _, c := range cur {
					cs = append(cs, c-prev)
					prev = c
				}
				try(fmt.Sprintf("splits=%v", cur), func() *scriptReader { return &scriptReader{data: data, chunks: append([]int{}, cs...)} })
			}
			if len(cur) == maxSplits {
				return
			}
			st := 1
			if len(cur) >= 2 {
				st = step * 3
			}
			for p := from; p < n; p += st {
				splits(p+1, append(cur, p))
			}
		}
		splits(1, nil)
	}
}

func firstDiffField(a, b string) string {
	la, lb := strings.Split(a, "\n"), strings.Split(b, "\n")
	for i := range la {
		if i >= len(lb) || la[i] != lb[i] {
			return strings.SplitN(la[i], "=", 2)[0]
		}
	}
	if strings.HasPrefix(b, "panic") {
		return "panic"
	}
	return "?"
}

func c09PartC(t *testing.T, r *h.Run) {
	N := bufLen()
	r.Set("reader_buffer_bytes_part_c", N)
	lens := []int{N - 2, N - 1, N, N + 1, N + 2, 2*N - 1, 2*N + 1, 4*N + 1}
	opts := &Opts{NameArguments: true}
	seq := 0
	for _, L := range lens {
		for _, where := range []string{"junk-before", "symbol", "path", "junk-after"} {
			long := strings.Repeat("y", L)
			var data []byte
			dump := "goroutine 1 [running]:\nmain.f(0x1)\n\t/a/b.go:10 +0x1\n\ngoroutine 2 [select]:\nmain.g()\n\t/a/c.go:3 +0x2\n"
			switch where {
			case "junk-before":
				data = []byte(long[:L-1] + "\n" + dump + "tail\n")
			case "symbol":
				sym := "main." + long
				sym = sym[:L-3] // the whole line "sym()\n" is L bytes
				data = []byte("panic: x\n\ngoroutine 1 [running]:\n" + sym + "()\n\t/a/b.go:10 +0x1\n\ngoroutine 2 [select]:\nmain.g()\n\t/a/c.go:3 +0x2\nexit\n")
			case "path":
				p := "\t/" + long
				p = p[:L-len(".go:10 +0x1\n")] + ".go:10 +0x1\n"
				data = []byte("goroutine 1 [running]:\nmain.f(0x1)\n" + p + "\ngoroutine 2 [select]:\nmain.g()\n\t/a/c.go:3 +0x2\n")
			case "junk-after":
				data = []byte(dump + "\n" + long[:L-1] + "\nend")
			}
			ref := scanWith(data, &scriptReader{data: data}, opts)
			// boundary-adjacent split offsets
			var cand []int
			addc := func(x int) {
				if x > 0 && x < len(data) {
					for _, c := range cand {
						if c == x {
							return
						}
					}
					cand = append(cand, x)
				}
			}
			ls := bytes.Index(data, []byte(long[:16]))
			for _, base := range []int{ls, ls + L, N, 2 * N, len(data) - 1, ls + N} {
				for d := -2; d <= 2; d++ {
					addc(base + d)
				}
			}
			try := func(desc string, mk func() *scriptReader) {
				seq++
				if !r.MineIdx(seq) || r.Expired() {
					return
				}
				key := fmt.Sprintf("c N=%d L=%d %s %s", N, L, where, desc)
				v := r.Check(func() *h.Viol {
					got := scanWith(data, mk(), opts)
					if got == ref {
						return nil
					}
					vv := &h.Viol{Fingerprint: "C09/scan-differs-by-delivery:" + firstDiffField(ref, got) + ":real-buffer", Summary: fmt.Sprintf("line of %d bytes (%s), buffer %d, delivery %s: outcome differs from the single-read delivery in %s", L, where, N, desc, firstDiffField(ref, got)), Key: key, Kind: "scan", Expected: ref, Observed: got}
					return vv
				})
				out := "ok"
				if v != nil {
					out = v.Fingerprint
				}
				r.Record(key, true, out+where)
				r.Add("traces_validated_against_impl", 1)
			}
			for _, u := range []int{1, 2, 3, 7, 100, N - 1, N, N + 1, 2 * N} {
				u := u
				try(fmt.Sprintf("uniform=%d", u), func() *scriptReader {
					var cs []int
					for k := 0; k < len(data); k += u {
						cs = append(cs, u)
					}
					return &scriptReader{data: data, chunks: cs}
				})
			}
			for i, a := range cand {
				a := a
				try(fmt.Sprintf("split=%d", a), func() *scriptReader { return &scriptReader{data: data, chunks: []int{a}} })
				try(fmt.Sprintf("split=%d eofWithData", a), func() *scriptReader { return &scriptReader{data: data, chunks: []int{a}, eofWithData: true} })
				for j, b := range cand {
					b := b
					if b <= a {
						continue
					}
					try(fmt.Sprintf("splits=%d,%d", a, b), func() *scriptReader { return &scriptReader{data: data, chunks: []int{a, b - a}} })
					if r.Thorough() {
						for _, c := range cand[j+1:] {
							c := c
							if c <= b || (i+j)%3 != 0 {
								continue
							}
							try(fmt.Sprintf("splits=%d,%d,%d", a, b, c), func() *scriptReader { return &scriptReader{data: data, chunks: []int{a, b - a, c - b}} })
						}
					}
				}
			}
			// ground truth on the single-read delivery: both goroutines, right remainder
			if r.Shard == 0 {
				res := scanOnce(bytes.NewReader(data), plainOpts())
				if res.snap == nil || len(res.snap.Goroutines) != 2 || res.snap.Goroutines[1].ID != 2 || len(res.snap.Goroutines[1].Stack.Calls) != 1 {
					vv := &h.Viol{Fingerprint: "C09/ground-truth:long-line:" + where, Summary: fmt.Sprintf("dump with a %d byte line (%s) is not parsed into its two goroutines", L, where), Key: fmt.Sprintf("c truth L=%d %s", L, where), Reproduced: 5}
					r.Report(vv)
				}
			}
		}
	}
	r.Sample(map[string]any{"part": "c", "buffer": N, "line_lengths": lens, "positions": "junk-before, symbol, path, junk-after", "deliveries": "uniform chunk sizes, all single/pair (thorough: triple) splits at boundary-adjacent offsets"})
}

func TestVerifC09(t *testing.T) {
	r := h.Start("C09")
	defer r.Finish(func(s string) { t.Error(s) })
	r.Set("rule", "(a) reader.readLine in the shrunk-buffer builds (N=4, N=8): streams of <=3 lines with lengths around N, 2N, 3N, with/without final newline; every composition of the stream into chunks x EOF with/after the last data, 1/2/99 zero-length reads before every read, 100 zero-length reads; oracle at every return: lines are the stream split after each newline, buffered()+unread is the rest; (b) ScanSnapshot in the N=64 build on 6 streams under every uniform chunk size and every chunking with <=2 (thorough 3) split points, outcome (snapshot, forwarded bytes, error, remainder+unread) equal to the single-read delivery and to ground truth; (c) the shipped 16 KiB build with lines of 16382..16386, 32767, 32769, 65537 bytes at four positions and split points at boundary-adjacent offsets. states = distinct (offset, r, w, pending error, window) observed at Read calls; transitions = Read calls answered. non-trivial = stream longer than one byte")
	r.Set("assumptions", []string{"the shrunk-buffer builds are derived from the current reader.go by rewriting only the array length of reader.buf (tools/instrument)", "part (c) binds the shrunk-buffer results to the shipped buffer size"})
	if rv := r.ReplayFile(); rv != nil {
		t.Logf("replay %s\n%s\nexpected:\n%s\nobserved:\n%s", rv.Key, rv.Summary, rv.Expected, rv.Observed)
		return
	}
	switch envPart() {
	case "a4", "a8":
		c09PartA(t, r)
	case "b":
		c09PartB(t, r)
	case "c":
		c09PartC(t, r)
	}
}
