//go:build verif

package stack

// C09: reader delivery independence.
// (a) all delivery schedules (every composition of the stream into chunks, EOF
//     with or after the last data, zero-length reads inserted at every position,
//     99 and 100 zero-length reads in a row) of short multi-line streams, on the
//     real reader.readLine in the shrunk-buffer builds (N = 4, 8);
// (b) ScanSnapshot on dump streams in the N = 64 build under every chunking with
//     <= 3 split points and every uniform chunk size;
// (c) the shipped 16 KiB buffer: lines of 16384-2..16384+2, 2*16384+-1, 65537
//     bytes at the start / middle / end of a dump with split points drawn from
//     the boundary-adjacent offsets.

import (
	"bytes"
	"fmt"
	"io"
	"strings"
	"testing"

	"github.com/maruel/panicparse/v2/internal/verifx/gen"
	"github.com/maruel/panicparse/v2/internal/verifx/h"
)

// scriptReader answers Read calls from a script.
type scriptReader struct {
	data        []byte
	off         int
	chunks      []int // successive chunk sizes; once exhausted everything is delivered
	ci          int
	carry       int         // rest of a chunk that did not fit the offered slice
	zeros       map[int]int // index of the data-delivering read -> zero-length reads before it
	zeroLeft    int
	dataReads   int
	eofWithData bool
	failErr     error // delivered instead of io.EOF when the data runs out
	reads       int
	onRead      func(sr *scriptReader, p []byte)
	failOnce    bool // the failure is reported once; later reads report a plain EOF
	failed      bool
	afterEnd    int // Read calls after the end signal was given
	repeatEnd   bool
}

func (s *scriptReader) endErr() error {
	if s.failErr != nil {
		if s.failOnce {
			if s.failed {
				return io.EOF
			}
			s.failed = true
		}
		return s.failErr
	}
	return io.EOF
}

func (s *scriptReader) Read(p []byte) (int, error) {
	s.reads++
	if s.onRead != nil {
		s.onRead(s, p)
	}
	if s.zeroLeft == 0 && s.zeros != nil {
		if z, ok := s.zeros[s.dataReads]; ok {
			s.zeroLeft = z
			delete(s.zeros, s.dataReads)
		}
	}
	if s.zeroLeft > 0 {
		s.zeroLeft--
		return 0, nil
	}
	rem := len(s.data) - s.off
	if rem == 0 {
		s.afterEnd++
		return 0, s.endErr()
	}
	n := rem
	if s.carry > 0 {
		n = s.carry
	} else if s.ci < len(s.chunks) {
		n = s.chunks[s.ci]
		s.ci++
	}
	if n > rem {
		n = rem
	}
	s.carry = 0
	if n > len(p) {
		s.carry = n - len(p)
		n = len(p)
	}
	copy(p, s.data[s.off:s.off+n])
	s.off += n
	s.dataReads++
	if s.off == len(s.data) && s.eofWithData {
		return n, s.endErr()
	}
	return n, nil
}

func (s *scriptReader) unread() []byte { return s.data[s.off:] }

// bufLenFn reports the size of the reader's buffer in this build; installed by
// c09_reader_test.go (in-package). Without it the shipped size is assumed.
var bufLenFn = func() int { return 16 * 1024 }

func bufLen() int { return bufLenFn() }

// c09PartAFn is part (a) (the reader driven directly); installed by c09_reader_test.go.
var c09PartAFn func(t *testing.T, r *h.Run)

// expectedLines splits a stream after each '\n'.
func expectedLines(data []byte) [][]byte { return splitLines(data) }

// ---- (b) and (c): ScanSnapshot level ---------------------------------------------

type deliveryOutcome struct {
	canon string
}

// publicStates / publicTransitions count, for the ScanSnapshot-level parts, the Read
// calls answered and the distinct (stream, offset, bytes offered) points reached.
var publicStates = map[string]struct{}{}
var publicTransitions int

func scanWith(data []byte, sr *scriptReader, opts *Opts) string {
	if sr.onRead == nil {
		tag := h.Hash(string(data))
		sr.onRead = func(s *scriptReader, p []byte) {
			publicTransitions++
			if len(publicStates) < 1000000 {
				publicStates[fmt.Sprintf("%s|%d|%d", tag, s.off, len(p))] = struct{}{}
			}
		}
	}
	res := scanOnce(sr, opts)
	if res.panicked != "" {
		return "panic: " + firstLine(res.panicked)
	}
	rest := append(append([]byte{}, res.suffix...), sr.unread()...)
	return fmt.Sprintf("snap=%s\nprefix=%q\nerr=%v\nrest=%q", h.Hash(canonSnapshot(res.snap)), h.Hash(string(res.prefix)), errClass(res.err), h.Hash(string(rest)))
}

func c09Streams() (names []string, streams [][]byte, truths []*gen.Dump) {
	env := genEnv()
	add := func(name string, d *gen.Dump, before, after string) {
		names = append(names, name)
		streams = append(streams, append(append([]byte(before), d.Bytes()...), after...))
		truths = append(truths, d)
	}
	add("plain", gen.GenDump(fixedChooser{"goroutines": 1, "g0.creator": 1, "g0.stack-shape": 1}, env), "panic: x\n\n", "exit status 2\n")
	add("crlf", gen.GenDump(fixedChooser{"crlf": 1, "goroutines": 1, "g1.stack-shape": 6}, env), "log\r\n", "trailer after a CRLF dump\r\nmore\r\n")
	add("indented", gen.GenDump(fixedChooser{"indent": 2, "goroutines": 1, "g0.f0.argshape": 9}, env), "", "tail\nsecond trailer line\nthird\n")
	add("unterminated", gen.GenDump(fixedChooser{"no-final-newline": 1, "g0.stack-shape": 1}, env), "x\n", "")
	rc, _ := gen.GenRace(fixedChooser{})
	names = append(names, "race+trailer")
	streams = append(streams, append(append([]byte("out\n"), rc.Bytes()...), "after1\nafter2\n"...))
	truths = append(truths, nil)
	names = append(names, "junk-only")
	streams = append(streams, []byte("just\nsome\r\ntext without dump\n==================\nmore"))
	truths = append(truths, nil)
	return
}

func c09PartB(t *testing.T, r *h.Run) {
	N := bufLen()
	r.Set("reader_buffer_bytes_part_b", N)
	names, streams, truths := c09Streams()
	opts := &Opts{NameArguments: true}
	seq := 0
	for si, data := range streams {
		ref := scanWith(data, &scriptReader{data: data}, opts)
		if truths[si] != nil {
			res := scanOnce(bytes.NewReader(data), plainOpts())
			if cat, msg := cmpDump(res.snap, truths[si]); cat != "" && r.Shard == 0 {
				vv := &h.Viol{Fingerprint: "C09/ground-truth:" + cat, Summary: fmt.Sprintf("stream %s with buffer %d, single read: %s", names[si], N, msg), Key: "b truth " + names[si], Reproduced: 5}
				vv.SetInput(data)
				r.Report(vv)
			}
		}
		n := len(data)
		try := func(desc string, mk func() *scriptReader) {
			seq++
			if !r.MineIdx(seq) || r.Expired() {
				return
			}
			key := fmt.Sprintf("b N=%d %s %s", N, names[si], desc)
			v := r.Check(func() *h.Viol {
				got := scanWith(data, mk(), opts)
				if got == ref {
					return nil
				}
				vv := &h.Viol{Fingerprint: "C09/scan-differs-by-delivery:" + firstDiffField(ref, got), Summary: fmt.Sprintf("stream %s, buffer %d, delivery %s: outcome differs from the single-read delivery in %s", names[si], N, desc, firstDiffField(ref, got)), Key: key, Kind: "scan", Expected: ref, Observed: got}
				vv.SetInput(data)
				return vv
			})
			out := "ok"
			if v != nil {
				out = v.Fingerprint
			}
			r.Record(key, true, out+names[si])
			r.Add("traces_validated_against_impl", 1)
		}
		for _, eofWith := range []bool{false, true} {
			for u := 1; u <= n; u++ {
				u := u
				try(fmt.Sprintf("uniform=%d eofWithData=%v", u, eofWith), func() *scriptReader {
					var cs []int
					for k := 0; k < n; k += u {
						cs = append(cs, u)
					}
					return &scriptReader{data: data, chunks: cs, eofWithData: eofWith}
				})
			}
		}
		// zero-length reads spread over the whole stream: one (and three) before every data
		// read of the byte-at-a-time and 7-byte deliveries (hundreds in total, never 100 in a row)
		for _, u := range []int{1, 7} {
			for _, z := range []int{1, 3, 60} {
				u, z := u, z
				try(fmt.Sprintf("uniform=%d with %d zero-length reads before every read", u, z), func() *scriptReader {
					var cs []int
					zs := map[int]int{}
					for k, i := 0, 0; k < n; k, i = k+u, i+1 {
						cs = append(cs, u)
						zs[i] = z
					}
					return &scriptReader{data: data, chunks: cs, zeros: zs}
				})
			}
		}
		// every chunking with <= maxSplits split points
		step := 1
		maxSplits := 2
		if r.Thorough() {
			maxSplits = 3
			step = 2
		}
		var splits func(from int, cur []int)
		splits = func(from int, cur []int) {
			if len(cur) > 0 {
				cs := make([]int, 0, len(cur)+1)
				prev := 0
				for _, c := range cur {
					cs = append(cs, c-prev)
					prev = c
				}
				try(fmt.Sprintf("splits=%v", cur), func() *scriptReader { return &scriptReader{data: data, chunks: append([]int{}, cs...)} })
			}
			if len(cur) == maxSplits {
				return
			}
			st := 1
			if len(cur) >= 2 {
				st = step * 3
			}
			for p := from; p < n; p += st {
				splits(p+1, append(cur, p))
			}
		}
		splits(1, nil)
	}
}

func firstDiffField(a, b string) string {
	la, lb := strings.Split(a, "\n"), strings.Split(b, "\n")
	for i := range la {
		if i >= len(lb) || la[i] != lb[i] {
			return strings.SplitN(la[i], "=", 2)[0]
		}
	}
	if strings.HasPrefix(b, "panic") {
		return "panic"
	}
	return "?"
}

func c09PartC(t *testing.T, r *h.Run) {
	N := bufLen()
	r.Set("reader_buffer_bytes_part_c", N)
	lens := []int{N - 2, N - 1, N, N + 1, N + 2, 2*N - 1, 2*N + 1, 4*N + 1}
	opts := &Opts{NameArguments: true}
	seq := 0
	for _, L := range lens {
		for _, where := range []string{"junk-before", "symbol", "path", "junk-after"} {
			long := strings.Repeat("y", L)
			var data []byte
			dump := "goroutine 1 [running]:\nmain.f(0x1)\n\t/a/b.go:10 +0x1\n\ngoroutine 2 [select]:\nmain.g()\n\t/a/c.go:3 +0x2\n"
			switch where {
			case "junk-before":
				data = []byte(long[:L-1] + "\n" + dump + "tail\n")
			case "symbol":
				sym := "main." + long
				sym = sym[:L-3] // the whole line "sym()\n" is L bytes
				data = []byte("panic: x\n\ngoroutine 1 [running]:\n" + sym + "()\n\t/a/b.go:10 +0x1\n\ngoroutine 2 [select]:\nmain.g()\n\t/a/c.go:3 +0x2\nexit\n")
			case "path":
				p := "\t/" + long
				p = p[:L-len(".go:10 +0x1\n")] + ".go:10 +0x1\n"
				data = []byte("goroutine 1 [running]:\nmain.f(0x1)\n" + p + "\ngoroutine 2 [select]:\nmain.g()\n\t/a/c.go:3 +0x2\n")
			case "junk-after":
				data = []byte(dump + "\n" + long[:L-1] + "\nend")
			}
			ref := scanWith(data, &scriptReader{data: data}, opts)
			// boundary-adjacent split offsets
			var cand []int
			addc := func(x int) {
				if x > 0 && x < len(data) {
					for _, c := range cand {
						if c == x {
							return
						}
					}
					cand = append(cand, x)
				}
			}
			ls := bytes.Index(data, []byte(long[:16]))
			for _, base := range []int{ls, ls + L, N, 2 * N, len(data) - 1, ls + N} {
				for d := -2; d <= 2; d++ {
					addc(base + d)
				}
			}
			try := func(desc string, mk func() *scriptReader) {
				seq++
				if !r.MineIdx(seq) || r.Expired() {
					return
				}
				key := fmt.Sprintf("c N=%d L=%d %s %s", N, L, where, desc)
				v := r.Check(func() *h.Viol {
					got := scanWith(data, mk(), opts)
					if got == ref {
						return nil
					}
					vv := &h.Viol{Fingerprint: "C09/scan-differs-by-delivery:" + firstDiffField(ref, got) + ":real-buffer", Summary: fmt.Sprintf("line of %d bytes (%s), buffer %d, delivery %s: outcome differs from the single-read delivery in %s", L, where, N, desc, firstDiffField(ref, got)), Key: key, Kind: "scan", Expected: ref, Observed: got}
					return vv
				})
				out := "ok"
				if v != nil {
					out = v.Fingerprint
				}
				r.Record(key, true, out+where)
				r.Add("traces_validated_against_impl", 1)
			}
			for _, u := range []int{1, 2, 3, 7, 100, N - 1, N, N + 1, 2 * N} {
				u := u
				try(fmt.Sprintf("uniform=%d", u), func() *scriptReader {
					var cs []int
					for k := 0; k < len(data); k += u {
						cs = append(cs, u)
					}
					return &scriptReader{data: data, chunks: cs}
				})
			}
			for i, a := range cand {
				a := a
				try(fmt.Sprintf("split=%d", a), func() *scriptReader { return &scriptReader{data: data, chunks: []int{a}} })
				try(fmt.Sprintf("split=%d eofWithData", a), func() *scriptReader { return &scriptReader{data: data, chunks: []int{a}, eofWithData: true} })
				for j, b := range cand {
					b := b
					if b <= a {
						continue
					}
					try(fmt.Sprintf("splits=%d,%d", a, b), func() *scriptReader { return &scriptReader{data: data, chunks: []int{a, b - a}} })
					if r.Thorough() {
						for _, c := range cand[j+1:] {
							c := c
							if c <= b || (i+j)%3 != 0 {
								continue
							}
							try(fmt.Sprintf("splits=%d,%d,%d", a, b, c), func() *scriptReader { return &scriptReader{data: data, chunks: []int{a, b - a, c - b}} })
						}
					}
				}
			}
			// ground truth on the single-read delivery: both goroutines, right remainder
			if r.Shard == 0 {
				res := scanOnce(bytes.NewReader(data), plainOpts())
				if res.snap == nil || len(res.snap.Goroutines) != 2 || res.snap.Goroutines[1].ID != 2 || len(res.snap.Goroutines[1].Stack.Calls) != 1 {
					vv := &h.Viol{Fingerprint: "C09/ground-truth:long-line:" + where, Summary: fmt.Sprintf("dump with a %d byte line (%s) is not parsed into its two goroutines", L, where), Key: fmt.Sprintf("c truth L=%d %s", L, where), Reproduced: 5}
					r.Report(vv)
				}
			}
		}
	}
	r.Sample(map[string]any{"part": "c", "buffer": N, "line_lengths": lens, "positions": "junk-before, symbol, path, junk-after", "deliveries": "uniform chunk sizes, all single/pair (thorough: triple) splits at boundary-adjacent offsets"})
}

func TestVerifC09(t *testing.T) {
	r := h.Start("C09")
	defer r.Finish(func(s string) { t.Error(s) })
	r.Set("rule", "(a) reader.readLine in the shrunk-buffer builds (N=4, N=8): streams of <=3 lines with lengths around N, 2N, 3N, with/without final newline; every composition of the stream into chunks x EOF with/after the last data, 1/2/99 zero-length reads before every read, 100 zero-length reads; oracle at every return: lines are the stream split after each newline, buffered()+unread is the rest; (b) ScanSnapshot in the N=64 build on 6 streams under every uniform chunk size and every chunking with <=2 (thorough 3) split points, outcome (snapshot, forwarded bytes, error, remainder+unread) equal to the single-read delivery and to ground truth; (c) the shipped 16 KiB build with lines of 16382..16386, 32767, 32769, 65537 bytes at four positions and split points at boundary-adjacent offsets. states = distinct (offset, r, w, pending error, window) observed at Read calls; transitions = Read calls answered. non-trivial = stream longer than one byte")
	r.Set("assumptions", []string{"the shrunk-buffer builds are derived from the current reader.go by rewriting only the array length of reader.buf (tools/instrument)", "part (c) binds the shrunk-buffer results to the shipped buffer size"})
	if rv := r.ReplayFile(); rv != nil {
		t.Logf("replay %s\n%s\nexpected:\n%s\nobserved:\n%s", rv.Key, rv.Summary, rv.Expected, rv.Observed)
		return
	}
	switch envPart() {
	case "a4", "a8":
		if c09PartAFn == nil {
			r.Note("the reader type is not bound in this tree: part (a) (readLine driven directly) is skipped; parts (b) and (c) run through the public API")
			r.Record("a skipped", true, "skipped")
			r.Record("a skipped 2", true, "skipped2")
			r.Sample(map[string]any{"part": "a", "skipped": true})
			return
		}
		c09PartAFn(t, r)
	case "b":
		c09PartB(t, r)
	case "c":
		c09PartC(t, r)
	}
	if len(publicStates) > 0 {
		r.Add("states", len(publicStates))
		r.Add("transitions", publicTransitions)
	}
}
