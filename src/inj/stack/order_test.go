//go:build verif

package stack

// C13: the bucket ordering contract. All ordered triples of a signature universe
// for the strict-weak-order laws of the comparator, and all pairs/triples of
// distinct signatures (with multiplicities) through the real Aggregate.

import (
	"fmt"
	"strings"
	"testing"

	"github.com/maruel/panicparse/v2/internal/verifx/h"
)

// frame classes of the universe
const (
	clMain = iota
	clGoMod
	clGOPATH
	clGoPkg
	clStdlib
	clUnknown
	clTestMain    // package main AND Stdlib (go test generated main)
	clMainUnknown // package main whose file lies under no detected root
	nClasses
)

var classNames = []string{"main", "gomod", "gopath", "gopkg", "stdlib", "unknown", "testmain", "main-unresolved"}

func classCall(cl int, variant int) Call {
	var c Call
	switch cl {
	// resolved classes carry the fields path guessing fills in: the relative and local
	// path and the import path implied by them (for package main this replaces "main")
	case clMain:
		c = mkCall("main.run", "/m/cmd/x/main.go", 10, Args{})
		c.Location = GoMod
		c.RelSrcPath, c.LocalSrcPath, c.ImportPath = "cmd/x/main.go", "/m/cmd/x/main.go", "example.com/mod/cmd/x"
	case clGoMod:
		c = mkCall("example.com/mod/pkg.Do", "/m/pkg/do.go", 20, Args{})
		c.Location = GoMod
		c.RelSrcPath, c.LocalSrcPath, c.ImportPath = "pkg/do.go", "/m/pkg/do.go", "example.com/mod/pkg"
	case clGOPATH:
		c = mkCall("github.com/u/gp.Run", "/gp/src/github.com/u/gp/run.go", 30, Args{})
		c.Location = GOPATH
		c.RelSrcPath, c.LocalSrcPath, c.ImportPath = "github.com/u/gp/run.go", "/home/u/go/src/github.com/u/gp/run.go", "github.com/u/gp"
	case clGoPkg:
		c = mkCall("github.com/u/dep.Call", "/gp/pkg/mod/github.com/u/dep@v1.0.0/call.go", 40, Args{})
		c.Location = GoPkg
		c.RelSrcPath, c.LocalSrcPath, c.ImportPath = "github.com/u/dep@v1.0.0/call.go", "/home/u/go/pkg/mod/github.com/u/dep@v1.0.0/call.go", "github.com/u/dep@v1.0.0"
	case clStdlib:
		c = mkCall("net/http.(*Server).Serve", "/goroot/src/net/http/server.go", 50, Args{})
		c.Location = Stdlib
		c.RelSrcPath, c.LocalSrcPath, c.ImportPath = "net/http/server.go", "/usr/lib/go/src/net/http/server.go", "net/http"
	case clMainUnknown:
		c = mkCall("main.work", "/build/cmd/y/work.go", 80, Args{})
		c.Location = LocationUnknown
	case clUnknown:
		c = mkCall("corp/x.Thing", "/build/x/thing.go", 60, Args{})
		c.Location = LocationUnknown
	case clTestMain:
		c = mkCall("main.main", "_test/_testmain.go", 70, Args{})
		c.Location = Stdlib
	}
	switch variant {
	case 1: // other function, same file
		_ = c.Func.Init(c.Func.Complete + "2")
	case 2: // other line
		c.Line++
	case 4: // a source file directly under the file-system root: no directory name
		setSrc(&c, "/"+c.SrcName, c.Line)
	case 3: // other directory, same base name
		c.RemoteSrcPath = "/zz" + c.RemoteSrcPath
		setSrc(&c, c.RemoteSrcPath, c.Line)
		// keep the class
	}
	return c
}

type ordSig struct {
	classes  []int
	variants []int
	locked   bool
	state    string
	creator  int // 0: none; otherwise 1 + the class of the single "created by" frame
}

func (o ordSig) String() string {
	var p []string
	for i, c := range o.classes {
		s := classNames[c]
		if o.variants[i] != 0 {
			s += fmt.Sprintf("~%d", o.variants[i])
		}
		p = append(p, s)
	}
	cr := ""
	if o.creator != 0 {
		cr = " created-by=" + classNames[o.creator-1]
	}
	return fmt.Sprintf("[%s] lk=%v %q%s", strings.Join(p, ","), o.locked, o.state, cr)
}

func (o ordSig) signature() Signature {
	s := Signature{State: o.state, Locked: o.locked}
	for i, cl := range o.classes {
		c := classCall(cl, o.variants[i])
		loc := c.Location
		s.Stack.Calls = append(s.Stack.Calls, c)
		s.Stack.Calls[i].Location = loc
	}
	if o.creator != 0 {
		c := classCall(o.creator-1, 1)
		c.Args = Args{}
		s.CreatedBy.Calls = []Call{c}
	}
	return s
}

// memberSignature is signature() for the m-th goroutine of a bucket: the first frame
// carries a pointer argument that differs per member, so that members of one bucket are
// similar but not equal and the bucket's signature is a merged one.
func (o ordSig) memberSignature(m int) Signature {
	s := o.signature()
	if len(s.Stack.Calls) != 0 {
		s.Stack.Calls[0].Args = Args{Values: []Arg{v(ptr1 + uint64(m)*0x40)}}
	}
	return s
}

func ordUniverse(thorough bool) []ordSig {
	var u []ordSig
	add := func(classes []int, variants []int, locked bool, state string) {
		if variants == nil {
			variants = make([]int, len(classes))
		}
		u = append(u, ordSig{classes: append([]int{}, classes...), variants: append([]int{}, variants...), locked: locked, state: state})
	}
	maxFull := 2
	if thorough {
		maxFull = 3
	}
	var rec func(prefix []int)
	rec = func(prefix []int) {
		if len(prefix) > 0 {
			add(prefix, nil, false, "chan receive")
		}
		if len(prefix) == maxFull {
			return
		}
		for c := 0; c < nClasses; c++ {
			rec(append(prefix, c))
		}
	}
	rec(nil)
	if !thorough {
		// length 3 over three classes
		for a := 0; a < 3; a++ {
			for b := 0; b < 3; b++ {
				for c := 0; c < 3; c++ {
					cl := []int{[]int{clMain, clStdlib, clGoMod}[a], []int{clMain, clStdlib, clGoMod}[b], []int{clMain, clStdlib, clGoMod}[c]}
					add(cl, nil, false, "chan receive")
				}
			}
		}
	}
	// deep stacks: 33 and 40 frames of one class, alone and with one frame of another class
	// (100 frames is the longest traceback the runtime prints before eliding)
	for _, n := range []int{33, 40, 100} {
		for _, cl := range []int{clStdlib, clGoMod, clUnknown} {
			deep := make([]int, n)
			for i := range deep {
				deep[i] = cl
			}
			add(deep, nil, false, "chan receive")
			for _, other := range []int{clMain, clGoPkg, clGOPATH} {
				add(append(append([]int{}, deep...), other), nil, false, "chan receive")
			}
		}
	}
	// attribute variants on 1- and 2-frame stacks
	for _, base := range [][]int{{clStdlib}, {clMain}, {clStdlib, clMain}, {clGoMod, clStdlib}} {
		for pos := range base {
			for vr := 1; vr <= 4; vr++ {
				vv := make([]int, len(base))
				vv[pos] = vr
				add(base, vv, false, "chan receive")
			}
		}
		add(base, nil, true, "chan receive")
		add(base, nil, false, "select")
		add(base, nil, true, "select")
	}
	// the same stack created from frames of different location classes (resolved,
	// unresolved, none), in two states: a key that looks at the creator only for some
	// pairs would show here
	for _, base := range [][]int{{clStdlib}, {clMain, clStdlib}} {
		for _, cr := range []int{1 + clGOPATH, 1 + clStdlib, 1 + clUnknown, 1 + clGoMod} {
			for _, st := range []string{"chan receive", "select"} {
				u = append(u, ordSig{classes: append([]int{}, base...), variants: make([]int, len(base)), state: st, creator: cr})
			}
		}
	}
	return u
}

func hasUserCode(s *Signature) bool {
	for i := range s.Stack.Calls {
		c := &s.Stack.Calls[i]
		if c.Func.IsPkgMain || c.Location == GoMod || c.Location == GOPATH || c.Location == GoPkg {
			return true
		}
	}
	return false
}

func allStdlibNoMain(s *Signature) bool {
	if len(s.Stack.Calls) == 0 {
		return false
	}
	for i := range s.Stack.Calls {
		c := &s.Stack.Calls[i]
		if c.Func.IsPkgMain || c.Location != Stdlib {
			return false
		}
	}
	return true
}

func countMain(s *Signature) int {
	n := 0
	for i := range s.Stack.Calls {
		if s.Stack.Calls[i].Func.IsPkgMain {
			n++
		}
	}
	return n
}

// sigLess is the comparator under test; installed by order_less_test.go (a separate
// file so that a renamed method only costs the law part of this check).
var sigLess func(a, b *Signature) bool

func safeLess(a, b *Signature) (res bool, panicked string) {
	defer func() {
		if e := recover(); e != nil {
			panicked = fmt.Sprint(e)
		}
	}()
	if sigLess == nil {
		return false, ""
	}
	return sigLess(a, b), ""
}

func TestVerifC13(t *testing.T) {
	r := h.Start("C13")
	defer r.Finish(func(s string) { t.Error(s) })
	u := ordUniverse(r.Thorough())
	sigs := make([]Signature, len(u))
	for i := range u {
		sigs[i] = u[i].signature()
	}
	n := len(u)
	r.Set("rule", "laws: all ordered triples (a,b,c) of the signature universe on the real Signature.less (irreflexive, asymmetric, transitive, transitive incomparability); end to end: all pairs and all triples of distinct signatures with multiplicities {1,2} and the first goroutine at every position through Aggregate(AnyPointer); non-trivial = the signatures are pairwise different; distinct = the tuple of universe indexes (+multiplicities, first position)")
	r.Set("universe_size", n)
	if rv := r.ReplayFile(); rv != nil {
		t.Logf("replay of %s: %s\nexpected: %s\nobserved: %s", rv.Key, rv.Summary, rv.Expected, rv.Observed)
		return
	}
	if sigLess == nil {
		r.Note("Signature.less is not bound in this tree: the comparator-law part is skipped, the end-to-end part runs")
	}
	// precompute the relation
	lt := make([][]bool, n)
	for i := range sigs {
		lt[i] = make([]bool, n)
		for j := range sigs {
			res, p := safeLess(&sigs[i], &sigs[j])
			if p != "" {
				r.Report(&h.Viol{Fingerprint: "C13/panic-in-less", Summary: "less panicked: " + p, Key: fmt.Sprintf("less %d %d", i, j), Extra: map[string]any{"a": u[i].String(), "b": u[j].String()}})
				return
			}
			lt[i][j] = res
		}
	}
	rep := func(fp, msg string, idx ...int) {
		var names []string
		for _, i := range idx {
			names = append(names, u[i].String())
		}
		r.Report(&h.Viol{Fingerprint: "C13/" + fp, Summary: msg + ": " + strings.Join(names, " ; "), Key: fmt.Sprintf("%s %v", fp, idx), Kind: "law", Extra: map[string]any{"signatures": names}, Reproduced: 5})
	}
	// laws
	for a := 0; a < n && sigLess != nil; a++ {
		if !r.MineIdx(a) {
			continue
		}
		if lt[a][a] {
			rep("irreflexive", "less(a,a) is true", a)
		}
		for b := 0; b < n; b++ {
			if lt[a][b] && lt[b][a] {
				rep("asymmetric", "less(a,b) and less(b,a)", a, b)
			}
			// contract on the comparator itself
			if a != b && allStdlibNoMain(&sigs[a]) && hasUserCode(&sigs[b]) && !lt[b][a] {
				rep("stdlib-not-after-user-code", "a bucket of user code does not order before an all-stdlib bucket", b, a)
			}
			if countMain(&sigs[a]) > countMain(&sigs[b]) && !lt[a][b] {
				rep("more-main-not-first", "more package-main frames does not order first", a, b)
			}
			for c := 0; c < n; c++ {
				if lt[a][b] && lt[b][c] && !lt[a][c] {
					rep("transitive", "less(a,b), less(b,c) but not less(a,c)", a, b, c)
				}
				if !lt[a][b] && !lt[b][a] && !lt[b][c] && !lt[c][b] && (lt[a][c] || lt[c][a]) {
					rep("incomparability-not-transitive", "a~b, b~c but a and c are ordered", a, b, c)
				}
				r.Add("law_triples", 1)
			}
			r.Record(fmt.Sprintf("law %d %d", a, b), a != b, fmt.Sprint(lt[a][b], lt[b][a]))
		}
		if r.Expired() {
			return
		}
	}
	// end to end through Aggregate
	ids := []int{11, 5, 29, 17, 3, 23}
	e2e := func(idx []int, mult []int, firstPos int) {
		key := fmt.Sprintf("e2e %v x%v f%d", idx, mult, firstPos)
		var outcome string
		r.Check(func() *h.Viol {
			s := &Snapshot{}
			owner := map[int]int{} // goroutine id -> universe index
			k := 0
			for i, ui := range idx {
				for m := 0; m < mult[i]; m++ {
					g := &Goroutine{Signature: u[ui].memberSignature(m), ID: ids[k]}
					owner[g.ID] = ui
					s.Goroutines = append(s.Goroutines, g)
					k++
				}
			}
			if firstPos >= len(s.Goroutines) {
				return nil
			}
			s.Goroutines[firstPos].First = true
			a, p := safeAggregate(s, AnyPointer)
			if p == "" && a != nil && len(a.Buckets) > 1 {
				// the caller may reorder what it was given; a second aggregation of the same
				// snapshot at the same level is judged instead of the first
				for i, j := 0, len(a.Buckets)-1; i < j; i, j = i+1, j-1 {
					a.Buckets[i], a.Buckets[j] = a.Buckets[j], a.Buckets[i]
				}
				a, p = safeAggregate(s, AnyPointer)
			}
			mk := func(fp, msg string) *h.Viol {
				return &h.Viol{Fingerprint: "C13/" + fp, Summary: msg, Key: key, Kind: "e2e", Observed: describeBuckets(a), Extra: map[string]any{"signatures": func() []string {
					var o []string
					for _, ui := range idx {
						o = append(o, u[ui].String())
					}
					return o
				}()}}
			}
			if p != "" {
				return mk("panic-in-Aggregate", "Aggregate panicked: "+firstLine(p))
			}
			if len(a.Buckets) == 0 {
				return mk("no-buckets", "no buckets")
			}
			firstID := s.Goroutines[firstPos].ID
			for bi, b := range a.Buckets {
				has := false
				for _, id := range b.IDs {
					if id == firstID {
						has = true
					}
				}
				if has && bi != 0 {
					return mk("first-bucket-not-first", fmt.Sprintf("the bucket holding the first goroutine is at index %d", bi))
				}
			}
			outcome = ""
			for i := 1; i < len(a.Buckets); i++ {
				for j := i + 1; j < len(a.Buckets); j++ {
					bi, bj := a.Buckets[i], a.Buckets[j]
					if res, _ := safeLess(&bj.Signature, &bi.Signature); res {
						return mk("not-sorted-by-comparator", fmt.Sprintf("bucket %d orders strictly before bucket %d under the comparator but is shown after it", j, i))
					}
					if allStdlibNoMain(&bi.Signature) && hasUserCode(&bj.Signature) {
						return mk("stdlib-before-user-code", fmt.Sprintf("all-stdlib bucket %d is shown before bucket %d which has main/module/GOPATH/module-cache code", i, j))
					}
					if countMain(&bj.Signature) > countMain(&bi.Signature) {
						return mk("fewer-main-first", fmt.Sprintf("bucket %d has fewer package-main frames than bucket %d but is shown first", i, j))
					}
					// the same judged on what the members are (a merged signature must not
					// have lost what ranks it)
					ri, rj := u[owner[bi.IDs[0]]].signature(), u[owner[bj.IDs[0]]].signature()
					if res, _ := safeLess(&rj, &ri); res {
						return mk("not-sorted-by-members", fmt.Sprintf("the members of bucket %d order strictly before the members of bucket %d under the comparator but the bucket is shown after it", j, i))
					}
					if allStdlibNoMain(&ri) && hasUserCode(&rj) {
						return mk("stdlib-before-user-code:members", fmt.Sprintf("bucket %d (members all standard library) is shown before bucket %d whose members have main/module/GOPATH/module-cache code", i, j))
					}
					if countMain(&rj) > countMain(&ri) {
						return mk("fewer-main-first:members", fmt.Sprintf("bucket %d has fewer package-main frames than bucket %d but is shown first", i, j))
					}
				}
			}
			for _, b := range a.Buckets {
				outcome += fmt.Sprint(owner[b.IDs[0]], len(b.IDs), "|")
			}
			return nil
		})
		r.Record(key, true, outcome)
		if len(idx) == 3 && idx[0]%7 == 0 && idx[1]%11 == 3 && idx[2]%13 == 5 && mult[0] == 1 && firstPos == 0 {
			var o []string
			for _, ui := range idx {
				o = append(o, u[ui].String())
			}
			r.Sample(map[string]any{"snapshot_signatures": o, "multiplicity": mult, "bucket_order(universe idx,count)": outcome})
		}
	}
	mults2 := [][]int{{1, 1}, {2, 1}, {1, 2}}
	mults3 := [][]int{{1, 1, 1}, {2, 1, 1}, {1, 1, 2}}
	seq := 0
	for a := 0; a < n; a++ {
		for b := 0; b < n; b++ {
			if a == b {
				continue
			}
			seq++
			if !r.MineIdx(seq) {
				continue
			}
			if r.Expired() {
				return
			}
			for _, m := range mults2 {
				for f := 0; f < m[0]+m[1]; f++ {
					e2e([]int{a, b}, m, f)
				}
			}
			if !r.Thorough() && (a+b)%3 != 0 {
				// quick: triples for a third of the (a,b) pairs, all c
				continue
			}
			for c := 0; c < n; c++ {
				if c == a || c == b {
					continue
				}
				for mi, m := range mults3 {
					for f := 0; f < m[0]+m[1]+m[2]; f++ {
						if mi != 0 && f != 0 && f != m[0]+m[1]+m[2]-1 {
							continue
						}
						e2e([]int{a, b, c}, m, f)
					}
				}
			}
		}
	}
}
