//go:build verif

package stack

// The in-package implementation side of the product search: the real
// scanningState stepped through its real scan method, with the whole internal
// state in the key. Kept in its own file: see newImplScanner in bfs_test.go.

import (
	"fmt"
	"runtime/debug"
	"strings"
)

func init() {
	newImplScanner = func() implScanner {
		return &inpkgScanner{s: scanningState{Snapshot: &Snapshot{}, state: looking}}
	}
	implScannerKind = "in-package (scanningState.scan)"
	implStepComparable = true
}

type inpkgScanner struct {
	s scanningState
}

func (i *inpkgScanner) step(line []byte) (consumed bool, err error, panicked string) {
	defer func() {
		if e := recover(); e != nil {
			panicked = fmt.Sprintf("%v\n%s", e, debug.Stack())
		}
	}()
	consumed, err = i.s.scan(line)
	i.s.released = nil // ScanSnapshot forwards and clears it after every scan
	return
}

func (i *inpkgScanner) key() string {
	var b strings.Builder
	fmt.Fprintf(&b, "%d|%q|%d|%q", int(i.s.state), i.s.prefix, i.s.goroutineIndex, i.s.held)
	for _, g := range i.s.Goroutines {
		fmt.Fprintf(&b, "|%d,%v,%q,%d,%v,%d,%v,%v,%v,%d", g.ID, g.First, g.State, len(g.Stack.Calls), g.Stack.Elided, len(g.CreatedBy.Calls), g.RaceAddr != 0, g.RaceWrite, g.Locked, g.SleepMax)
	}
	return b.String()
}

func (i *inpkgScanner) goroutines() []*Goroutine { return i.s.Goroutines }
