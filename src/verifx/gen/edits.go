//go:build verif

package gen

// Robust-input enumerators of C03: seed inputs covering every line kind of both
// grammars and their bounded-exhaustive edits / corruptions.

import (
	"bytes"
	"regexp"
	"runtime"
)

type fixedChooser map[string]int

func (f fixedChooser) Choose(n int, label string) int {
	if v, ok := f[label]; ok && v < n {
		return v
	}
	return 0
}

var raceContents = []fixedChooser{
	{},
	{"op0.write": 1, "op1.write": 1, "op2.write": 1},
	{"op0.write": 1, "op2.write": 1, "crlf": 1},
	{"op0.frames": 1, "op1.frames": 1, "op2.frames": 1, "op0.args": 1, "op1.args": 1, "op2.args": 1},
}

func genEnv() *Env {
	st, _ := States(runtime.GOROOT(), "/opt/veriftools/go1.26.8", "/opt/veriftools/go1.26")
	return &Env{States: st}
}

// RobustSeeds are complete inputs covering every line kind of both grammars.
func RobustSeeds() [][]byte {
	env := genEnv()
	var seeds [][]byte
	contents := []fixedChooser{
		{},
		{"goroutines": 1, "g0.stack-shape": 1, "g0.creator": 2, "g0.f0.argshape": 9, "g0.minutes": 2, "g0.locked": 1, "g1.stack-shape": 6},
		{"goroutines": 2, "g0.f0.sym": 17, "g0.f0.argshape": 14, "g1.stack-shape": 7, "g2.creator": 1, "g2.f0.sym": 4, "g0.f0.file": 3},
		{"indent": 2, "goroutines": 1, "g0.stack-shape": 1, "g1.creator": 1, "crlf": 1},
		{"header-annotation": 1, "frame-annotation": 2, "g0.f0.sym": 22, "g0.f0.file": 5, "g0.stack-shape": 2, "g0.f0.argshape": 25},
		{"g0.stack-shape": 1, "g0.f0.argshape": 20, "g0.f0.leafvalues": 4, "g0.f1.argshape": 30, "g0.f1.sym": 13, "g0.state": 12},
	}
	for _, c := range contents {
		d := GenDump(c, env)
		if len(d.Gs) > 0 && len(d.Gs[0].Calls) > 0 && d.Gs[0].ElidedText == "" && c["g0.stack-shape"] == 1 {
			d.Gs[0].ElidedAt, d.Gs[0].ElidedText = len(d.Gs[0].Calls), "...5 frames elided..."
		}
		seeds = append(seeds, append(append([]byte("panic: boom\n\n"), d.Bytes()...), "exit status 2\n"...))
	}
	for _, c := range raceContents[:4] {
		rc, _ := GenRace(c)
		seeds = append(seeds, append(append([]byte("out\n"), rc.Bytes()...), "Found 1 data race(s)\n"...))
	}
	rc, _ := GenRace(fixedChooser{"ops": 1, "foreign-section": 2, "section-for-op1": 1})
	seeds = append(seeds, rc.Bytes())
	// two dumps and a race report in one stream
	seeds = append(seeds, append(append(append([]byte{}, seeds[0]...), seeds[6]...), seeds[1]...))
	return seeds
}


func splitLines(b []byte) [][]byte {
	var out [][]byte
	for len(b) > 0 {
		i := bytes.IndexByte(b, '\n')
		if i < 0 {
			out = append(out, b)
			break
		}
		out = append(out, b[:i+1])
		b = b[i+1:]
	}
	return out
}

func joinLines(l [][]byte) []byte { return bytes.Join(l, nil) }

var reNumber = regexp.MustCompile(`\d+`)
var numberCorruptions = []string{"", "123456789012345678", "1234567890123456789", "1234567890123456789012345678901234567890", "-1", "0x", "1a", "00"}
var bracketCorruptions = []string{"{", "}", "{{", "}}", "{}", "{{{{{{0x1}}}}}}", "{{{{{{{0x1}}}}}}}", "{0x1", "0x1}", "{0x1}, {", "...", "{...}", "_", "?", "0x?", "{_}", ", ", ",", "{, }"}
var escapeCorruptions = []string{"%", "%2", "%zz", "%00", "%2e", "%2e%2e", "%ff", "+", "%25"}
var addrCorruptions = []string{"0x", "0x00000000000000000", "0xg", "", "0x12345678901234567"}


// RobustInputs enumerates the seeds and every edited / corrupted variant.
func RobustInputs(thorough bool, try func(kind string, seed int, input []byte, changed bool)) int {
	seeds := RobustSeeds()
	SeedEdits(seeds, thorough, "", try)
	robustExtras(try)
	return len(seeds)
}

// SeedEdits enumerates the edit families over the given seeds; kinds are prefixed.
func SeedEdits(seeds [][]byte, thorough bool, prefix string, try0 func(kind string, seed int, input []byte, changed bool)) {
	try := func(kind string, seed int, input []byte, changed bool) { try0(prefix+kind, seed, input, changed) }
	for si, seed := range seeds {
		lines := splitLines(seed)
		n := len(lines)
		try("seed", si, seed, false)
		// single line edits
		edit := func(f func() [][]byte) { try("line-edit", si, joinLines(f()), true) }
		for i := 0; i < n; i++ {
			i := i
			edit(func() [][]byte { return append(append([][]byte{}, lines[:i]...), lines[i+1:]...) })
			edit(func() [][]byte {
				return append(append(append([][]byte{}, lines[:i+1]...), lines[i]), lines[i+1:]...)
			})
			for j := 0; j < n; j++ {
				j := j
				if j > i {
					edit(func() [][]byte {
						o := append([][]byte{}, lines...)
						o[i], o[j] = o[j], o[i]
						return o
					})
				}
				if j != i {
					edit(func() [][]byte { // move i -> j
						o := append(append([][]byte{}, lines[:i]...), lines[i+1:]...)
						return append(append(append([][]byte{}, o[:min(j, len(o))]...), lines[i]), o[min(j, len(o)):]...)
					})
				}
			}
			// splice every line of the "other grammar" seed at i
			other := splitLines(seeds[(si+6)%len(seeds)])
			for k := range other {
				k := k
				edit(func() [][]byte {
					return append(append(append([][]byte{}, lines[:i]...), other[k]), lines[i:]...)
				})
			}
		}
		if thorough && n <= 40 {
			for i := 0; i < n; i++ {
				for j := i + 1; j < n; j++ {
					i, j := i, j
					edit(func() [][]byte { // delete two
						o := append(append([][]byte{}, lines[:i]...), lines[i+1:j]...)
						return append(o, lines[j+1:]...)
					})
					edit(func() [][]byte { // duplicate i, delete j
						o := append(append(append([][]byte{}, lines[:i+1]...), lines[i]), lines[i+1:j]...)
						return append(o, lines[j+1:]...)
					})
				}
			}
		}
		// truncations
		for cut := 0; cut < len(seed); cut++ {
			try("truncation", si, seed[:cut], true)
		}
		// token corruptions: numbers
		for _, loc := range reNumber.FindAllIndex(seed, -1) {
			for _, c := range numberCorruptions {
				try("number", si, append(append(append([]byte{}, seed[:loc[0]]...), c...), seed[loc[1]:]...), true)
			}
		}
		// escapes at every position of every function line's symbol; brackets in every argument list
		off := 0
		for _, l := range lines {
			t0 := bytes.TrimRight(l, "\r\n")
			if open := bytes.IndexByte(t0, '('); open > 0 && bytes.HasSuffix(t0, []byte(")")) {
				for p := 0; p <= open; p++ {
					for _, c := range escapeCorruptions {
						try("escape", si, append(append(append([]byte{}, seed[:off+p]...), c...), seed[off+p:]...), true)
					}
				}
				for _, c := range bracketCorruptions {
					o := append([]byte{}, seed[:off+open+1]...)
					o = append(o, c...)
					o = append(o, seed[off+len(t0)-1:]...)
					try("brackets", si, o, true)
					// also appended to the existing list
					o2 := append([]byte{}, seed[:off+len(t0)-1]...)
					o2 = append(o2, ", "...)
					o2 = append(o2, c...)
					o2 = append(o2, seed[off+len(t0)-1:]...)
					try("brackets", si, o2, true)
				}
			}
			if bytes.HasPrefix(t0, []byte("created by ")) {
				for p := len("created by "); p <= len(t0); p++ {
					for _, c := range escapeCorruptions {
						try("escape", si, append(append(append([]byte{}, seed[:off+p]...), c...), seed[off+p:]...), true)
					}
				}
			}
			if i := bytes.Index(t0, []byte(" at 0x")); i > 0 {
				j := bytes.Index(t0[i+4:], []byte(" "))
				for _, c := range addrCorruptions {
					o := append([]byte{}, seed[:off+i+4]...)
					o = append(o, c...)
					o = append(o, seed[off+i+4+j:]...)
					try("address", si, o, true)
				}
			}
			off += len(l)
		}
	}
}

func robustExtras(try func(kind string, seed int, input []byte, changed bool)) {
	// all single byte substitutions of three short seeds
	short := [][]byte{
		[]byte("goroutine 1 [running]:\nmain.f(0x1, {0x2})\n\t/a/b.go:10 +0x1\ncreated by main.g\n\t/a/c.go:2 +0x3\n\ngoroutine 2 [select]:\n\tgoroutine running on other thread; stack unavailable\n"),
		[]byte("==================\nWARNING: DATA RACE\nRead at 0x00c0 by goroutine 7:\n  main.r()\n      /a/b.go:1 +0x1\n\nGoroutine 7 (running) created at:\n  main.m()\n      /a/b.go:2 +0x2\n==================\n"),
		[]byte("  goroutine 5 [chan send, 2 minutes]:\r\n  a%2eb/c.d(...)\r\n  \t/x.go:1\r\n  ...3 frames elided...\r\n"),
	}
	for si, seed := range short {
		for off := range seed {
			for b := 0; b < 256; b++ {
				if byte(b) == seed[off] {
					continue
				}
				o := append([]byte{}, seed...)
				o[off] = byte(b)
				try("byte-subst", 100+si, o, true)
			}
		}
	}
	// pairs of goroutines parked in the same function whose argument lists have
	// different shapes (every ordered pair of argument-list shapes)
	for i, a := range ArgShapes {
		for j, b := range ArgShapes {
			in := []byte("goroutine 1 [select]:\nmain.worker(" + Substitute(a, 0).String() + ")\n\t/a/w.go:10 +0x1\n\ngoroutine 2 [select]:\nmain.worker(" + Substitute(b, 1).String() + ")\n\t/a/w.go:10 +0x1\n\ngoroutine 3 [select]:\nmain.worker(" + Substitute(a, 2).String() + ")\n\t/a/w.go:10 +0x1\n")
			try("shape-pair", 1000+i*len(ArgShapes)+j, in, true)
		}
	}
}
