//go:build verif

package gen

import (
	"fmt"
	"strings"
)

// RaceOp is one memory operation of a race report.
type RaceOp struct {
	ID    int
	Write bool
	Addr  uint64
	Calls []Call
}

// RaceSection is one "Goroutine N (running|finished) created at:" section.
type RaceSection struct {
	ID      int
	Running bool
	Calls   []Call
}

// Race is a tsan Go race report.
type Race struct {
	Ops      []RaceOp
	Sections []RaceSection
	CRLF     bool
}

func raceFrame(b *strings.Builder, c *Call, eol string) {
	fmt.Fprintf(b, "  %s(%s)%s", c.Sym(), c.Args.String(), eol)
	fmt.Fprintf(b, "      %s:%d +0x%x%s", c.File, c.Line, 0x3a, eol)
}

// Bytes renders the report between its two separator lines.
func (r *Race) Bytes() []byte {
	eol := "\n"
	if r.CRLF {
		eol = "\r\n"
	}
	var b strings.Builder
	b.WriteString("==================" + eol)
	b.WriteString("WARNING: DATA RACE" + eol)
	for i := range r.Ops {
		op := &r.Ops[i]
		if i == 0 {
			kind := "Read"
			if op.Write {
				kind = "Write"
			}
			fmt.Fprintf(&b, "%s at 0x%012x by goroutine %d:%s", kind, op.Addr, op.ID, eol)
		} else {
			kind := "read"
			if op.Write {
				kind = "write"
			}
			fmt.Fprintf(&b, "Previous %s at 0x%012x by goroutine %d:%s", kind, op.Addr, op.ID, eol)
		}
		for k := range op.Calls {
			raceFrame(&b, &op.Calls[k], eol)
		}
		b.WriteString(eol)
	}
	for i := range r.Sections {
		s := &r.Sections[i]
		st := "finished"
		if s.Running {
			st = "running"
		}
		fmt.Fprintf(&b, "Goroutine %d (%s) created at:%s", s.ID, st, eol)
		for k := range s.Calls {
			raceFrame(&b, &s.Calls[k], eol)
		}
		if i != len(r.Sections)-1 {
			b.WriteString(eol)
		}
	}
	b.WriteString("==================" + eol)
	return []byte(b.String())
}

var raceFrames = []Call{
	{Pkg: "main", Name: "panicRace.func1", File: "/gopath/src/example.com/p/main.go", Line: 153},
	{Pkg: "main", Name: "(*T).update", File: "/gopath/src/example.com/p/t.go", Line: 22, Args: Args{Vals: []Arg{{Val: 0xc000012345}, {Val: 2}}}},
	{Pkg: "gopkg.in/yaml.v2", Name: "Unmarshal", File: "/gopath/pkg/mod/gopkg.in/yaml.v2@v2.4.0/yaml.go", Line: 81, Args: Args{Vals: []Arg{{Agg: true, Fields: Args{Vals: []Arg{{Val: 0xc000045678}, {Val: 3}, {Val: 3}}}}}}},
	{Pkg: "runtime", Name: "goexit", File: "/goroot/src/runtime/asm_amd64.s", Line: 1650},
}

func raceStack(c Chooser, tag string, variant int) []Call {
	n := 1 + c.Choose(2, tag+"frames")
	src := []Call{raceFrames[0], raceFrames[3]}
	if c.Choose(2, tag+"args") == 1 {
		src = []Call{raceFrames[1], raceFrames[2]}
	}
	var out []Call
	for i := 0; i < n; i++ {
		f := src[(variant+i)%2]
		f.Line += variant
		out = append(out, f)
	}
	return out
}

// GenRace chooses a race report: 2..3 operations, every subset of goroutines with
// a creation section, in every order, an optional foreign section at any position.
// foreignAt is the index in Sections of the foreign section, -1 if none.
func GenRace(c Chooser) (r *Race, foreignAt int) {
	r = &Race{}
	nOps := 2 + c.Choose(2, "ops")
	ids := []int{7, 19, 4}
	for i := 0; i < nOps; i++ {
		tag := fmt.Sprintf("op%d.", i)
		op := RaceOp{ID: ids[i], Addr: 0x00c0000e4030 + uint64(2*i), Write: c.Choose(2, tag+"write") == 1}
		op.Calls = raceStack(c, tag, i)
		r.Ops = append(r.Ops, op)
	}
	// subset with a section
	var subset []int
	for i := 0; i < nOps; i++ {
		if c.Choose(2, fmt.Sprintf("section-for-op%d", i)) == 0 { // default: every goroutine has one
			subset = append(subset, i)
		}
	}
	// order: choose a permutation by successive picks
	rem := append([]int{}, subset...)
	var order []int
	for len(rem) > 0 {
		k := 0
		if len(rem) > 1 {
			k = c.Choose(len(rem), fmt.Sprintf("section-order-%d", len(order)))
		}
		order = append(order, rem[k])
		rem = append(rem[:k], rem[k+1:]...)
	}
	for si, oi := range order {
		tag := fmt.Sprintf("sec%d.", si)
		s := RaceSection{ID: r.Ops[oi].ID, Running: c.Choose(2, tag+"finished") == 0}
		s.Calls = raceStack(c, tag, 5+oi)
		r.Sections = append(r.Sections, s)
	}
	foreignAt = -1
	if f := c.Choose(len(r.Sections)+2, "foreign-section"); f != 0 {
		foreignAt = f - 1
		fs := RaceSection{ID: 99, Running: true, Calls: []Call{raceFrames[0]}}
		r.Sections = append(r.Sections[:foreignAt], append([]RaceSection{fs}, r.Sections[foreignAt:]...)...)
	}
	r.CRLF = c.Choose(2, "crlf") == 1
	return r, foreignAt
}
