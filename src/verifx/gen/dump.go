//go:build verif

// Package gen holds the generators: models of the Go runtime's traceback
// printer (G-dump) and of tsan's Go report printer (G-race). Each emits the text
// and the ground-truth structure the text was printed from. It does not import
// the package under test.
package gen

import (
	"fmt"
	"os"
	"path/filepath"
	"regexp"
	"sort"
	"strings"
)

// Arg is one printed argument word, or an aggregate of them.
type Arg struct {
	Agg        bool
	Fields     Args
	Val        uint64
	TooLarge   bool // printed "_"
	Inaccurate bool // printed with a trailing "?"
}

// Args is a printed argument list.
type Args struct {
	Vals   []Arg
	Elided bool // trailing "..."
}

func (a Args) render(b *strings.Builder) {
	first := true
	comma := func() {
		if !first {
			b.WriteString(", ")
		}
		first = false
	}
	for _, v := range a.Vals {
		comma()
		switch {
		case v.Agg:
			b.WriteString("{")
			v.Fields.render(b)
			b.WriteString("}")
		case v.TooLarge:
			b.WriteString("_")
		default:
			fmt.Fprintf(b, "0x%x", v.Val)
			if v.Inaccurate {
				b.WriteString("?")
			}
		}
	}
	if a.Elided {
		comma()
		b.WriteString("...")
	}
}

// String renders like runtime.printArgs.
func (a Args) String() string {
	var b strings.Builder
	a.render(&b)
	return b.String()
}

// Call is one frame: what the runtime knew when it printed it.
type Call struct {
	Pkg  string // import path as the linker knows it ("" for a package-less symbol)
	Name string // function name after the package dot, as printed (generic shapes already "[...]")
	Args Args
	File string
	Line int
}

// Sym is the symbol text as the runtime prints it.
func (c Call) Sym() string {
	if c.Pkg == "" {
		return c.Name
	}
	return PathToPrefix(c.Pkg) + "." + c.Name
}

// Complete is the demangled reference a reader expects.
func (c Call) Complete() string {
	if c.Pkg == "" {
		return c.Name
	}
	return c.Pkg + "." + c.Name
}

// PathToPrefix is cmd/internal/objabi.PathToPrefix: the escaping the linker
// applies to package paths in symbol names.
func PathToPrefix(s string) string {
	slash := strings.LastIndex(s, "/")
	n := 0
	for r := 0; r < len(s); r++ {
		if c := s[r]; c <= ' ' || (c == '.' && r > slash) || c == '%' || c == '"' || c >= 0x7F {
			n++
		}
	}
	if n == 0 {
		return s
	}
	const hex = "0123456789abcdef"
	p := make([]byte, 0, len(s)+2*n)
	for r := 0; r < len(s); r++ {
		if c := s[r]; c <= ' ' || (c == '.' && r > slash) || c == '%' || c == '"' || c >= 0x7F {
			p = append(p, '%', hex[c>>4], hex[c&0xF])
		} else {
			p = append(p, c)
		}
	}
	return string(p)
}

// Goroutine is one goroutine of a dump.
type Goroutine struct {
	ID          int
	State       string // status text incl. " (leaked)"/" (scan)"/" (durable)" tails
	Minutes     int
	Locked      bool
	Bubble      int // ", synctest bubble N" tail (ignored by readers)
	Calls       []Call
	ElidedAt    int // index in Calls before which the elision marker is printed; -1: none
	ElidedText  string
	Unavailable bool
	Created     *Call
	CreatedIn   int // " in goroutine N"; 0: absent
}

// Format is the textual variation that must not matter.
type Format struct {
	Indent      string // uniform leading indentation of every line
	IndentBlank bool   // blank lines carry the indentation too
	CRLF        bool
	NoFinalNL   bool
	HdrAnn      int // 0 none, 1 " gp=0x.. m=0 mp=0x..", 2 " gp=0x.. m=nil"
	FrameAnn    int // 0 none, 1 " fp=0x.. sp=0x..", 2 " fp=.. sp=.. pc=.."
	FileIndent  string
	NoPC        bool
}

// Dump is a list of goroutines plus format.
type Dump struct {
	Gs []Goroutine
	F  Format
}

// Lines renders the dump as lines without EOL and without indentation.
func (d *Dump) rawLines() []string {
	var out []string
	fi := d.F.FileIndent
	if fi == "" {
		fi = "\t"
	}
	fileLine := func(c *Call, pc int) string {
		s := fmt.Sprintf("%s%s:%d", fi, c.File, c.Line)
		if !d.F.NoPC {
			s += fmt.Sprintf(" +0x%x", pc)
		}
		switch d.F.FrameAnn {
		case 1:
			s += " fp=0xc00009af70 sp=0xc00009af20"
		case 2:
			s += " fp=0xc00009af70 sp=0xc00009af20 pc=0x46c2a5"
		}
		return s
	}
	for gi := range d.Gs {
		g := &d.Gs[gi]
		if gi != 0 {
			out = append(out, "")
		}
		hdr := fmt.Sprintf("goroutine %d", g.ID)
		switch d.F.HdrAnn {
		case 1:
			hdr += " gp=0xc000002380 m=0 mp=0x5f4f40"
		case 2:
			hdr += " gp=0xc000002380 m=nil"
		}
		hdr += " [" + g.State
		if g.Minutes > 0 {
			hdr += fmt.Sprintf(", %d minutes", g.Minutes)
		}
		if g.Locked {
			hdr += ", locked to thread"
		}
		if g.Bubble != 0 {
			hdr += fmt.Sprintf(", synctest bubble %d", g.Bubble)
		}
		hdr += "]:"
		out = append(out, hdr)
		if g.Unavailable {
			out = append(out, fi+"goroutine running on other thread; stack unavailable")
		}
		for ci := range g.Calls {
			c := &g.Calls[ci]
			if g.ElidedAt == ci && g.ElidedText != "" {
				out = append(out, g.ElidedText)
			}
			out = append(out, c.Sym()+"("+c.Args.String()+")")
			out = append(out, fileLine(c, 0x1d+ci))
		}
		if g.ElidedAt == len(g.Calls) && g.ElidedText != "" && len(g.Calls) > 0 {
			out = append(out, g.ElidedText)
		}
		if g.Created != nil {
			s := "created by " + g.Created.Sym()
			if g.CreatedIn != 0 {
				s += fmt.Sprintf(" in goroutine %d", g.CreatedIn)
			}
			out = append(out, s)
			out = append(out, fileLine(g.Created, 0x45))
		}
	}
	return out
}

// Bytes renders the dump.
func (d *Dump) Bytes() []byte {
	eol := "\n"
	if d.F.CRLF {
		eol = "\r\n"
	}
	lines := d.rawLines()
	var b strings.Builder
	for i, l := range lines {
		if l != "" || d.F.IndentBlank {
			b.WriteString(d.F.Indent)
		}
		b.WriteString(l)
		if i != len(lines)-1 || !d.F.NoFinalNL {
			b.WriteString(eol)
		}
	}
	return []byte(b.String())
}

// ---- alphabets ----------------------------------------------------------------

var builtinStates = []string{"running", "runnable", "syscall", "waiting", "idle", "dead", "copystack", "preempted", "chan receive", "chan send", "select", "IO wait", "semacquire", "sleep", "sync.Cond.Wait", "sync.Mutex.Lock", "select (no cases)", "chan receive (nil chan)", "GC worker (idle)", "force gc (idle)", "finalizer wait", "trace reader (blocked)", "sync.WaitGroup.Wait (durable)", "???"}

var reStr = regexp.MustCompile(`(?m)^\s*\w+:\s*"([^"]+)",`)

func readBlock(path, varname string) []string {
	b, err := os.ReadFile(path)
	if err != nil {
		return nil
	}
	s := string(b)
	i := strings.Index(s, "var "+varname+" = [...]string{")
	if i < 0 {
		return nil
	}
	s = s[i:]
	j := strings.Index(s, "\n}")
	if j < 0 {
		return nil
	}
	var out []string
	for _, m := range reStr.FindAllStringSubmatch(s[:j], -1) {
		out = append(out, m[1])
	}
	return out
}

// States is the union of the status and wait-reason strings of the installed
// runtimes (read from their sources), plus the built-in list.
func States(goroots ...string) (states []string, fromSource int) {
	set := map[string]bool{}
	for _, s := range builtinStates {
		set[s] = true
	}
	for _, gr := range goroots {
		if gr == "" {
			continue
		}
		for _, s := range readBlock(filepath.Join(gr, "src", "runtime", "traceback.go"), "gStatusStrings") {
			if !set[s] {
				fromSource++
			}
			set[s] = true
		}
		for _, s := range readBlock(filepath.Join(gr, "src", "runtime", "runtime2.go"), "waitReasonStrings") {
			if !set[s] {
				fromSource++
			}
			set[s] = true
		}
	}
	for s := range set {
		states = append(states, s)
	}
	sort.Strings(states)
	// "running" first: it is the default.
	for i, s := range states {
		if s == "running" {
			states[0], states[i] = states[i], states[0]
		}
	}
	return states, fromSource
}

// Sym is one symbol shape: package path + printed name.
type Sym struct{ Pkg, Name string }

// Symbols is the table of symbol shapes of C01.
var Symbols = []Sym{
	{"main", "main"},
	{"main", "f"},
	{"main", "(*T).M"},
	{"main", "T.M"},
	{"main", "(*T[...]).M"},
	{"main", "F[...]"},
	{"main", "f.func1"},
	{"main", "f.func1.2"},
	{"main", "init.0"},
	{"main", "glob..func1"},
	{"main", "(*T).M-fm"},
	{"main", "_Cfunc_puts"},
	{"main", "Ünïcode"},
	{"", "panic"},
	{"runtime", "goexit"},
	{"net/http", "(*Server).Serve"},
	{"net/http", "HandlerFunc.ServeHTTP"},
	{"gopkg.in/yaml.v2", "(*decoder).unmarshal"},
	{"gopkg.in/yaml.v2", "Unmarshal"},
	{"github.com/a.b/c", "Do"},
	{"example.com/v2.1.3", "F"},
	{"dotted.single", "F"},
	{"example.com/café/lib", "Run"},
	{"example.com/日本/語", "(*T).M"},
	{"example.com/a%b", "F"},
	{"example.com/a b", "F"},
	{"example.com/q\"uote", "F"},
	{"example.com/c++/lib", "F"},
	{"example.com/c++/lib.v2", "(*T).Func"},
	{"github.com/maruel/panicparse/v2/stack", "ScanSnapshot"},
	{"internal/poll", "(*FD).Read"},
	{"main", strings.Repeat("LongName", 2500)},
	{"example.com/" + strings.Repeat("deep/", 200) + "p", "F"},
	{"main", "f.gowrap1"},
	{"main", "f.deferwrap2"},
	{"main", "(*T).M.func1"},
	{"sync", "(*WaitGroup).Wait"},
	{"main", "x"},
	{"a", "b"},
	{"command-line-arguments", "main"},
}

// FileShape is one source location shape.
type FileShape struct {
	File string
	Line int
}

// Files is the table of file shapes of C01.
var Files = []FileShape{
	{"/home/user/go/src/example.com/p/file.go", 74},
	{"/usr/lib/go/src/runtime/asm_amd64.s", 1650},
	{"/home/user/p/cgo_helper.c", 12},
	{"??", 0},
	{"<autogenerated>", 1},
	{"C:/Users/me/go/src/p/main.go", 33},
	{"/home/user name/my project/a b.go", 8},
	{"/" + strings.Repeat("verylongdirectoryname/", 780) + "f.go", 5},
	{"_test/_testmain.go", 64},
	{"/tmp/x.go", 1},
	{"/tmp/x.go", 100000000000000000},
	{"./rel/x.go", 7},
	{"/a/b.go:7/c.go", 9},
	{"/home/ü/ñ/日本.go", 3},
}

// LeafValues are the argument word values substituted into tree shapes.
var LeafValues = []Arg{
	{Val: 0x1}, {Val: 0}, {Val: 9}, {Val: 10}, {Val: 512 * 1024}, {Val: 512*1024 + 1}, {Val: 0xc000012345},
	{Val: 1<<63 - 2}, {Val: 1<<63 - 1}, {Val: 1<<64 - 1}, {TooLarge: true}, {Val: 0xc000045678, Inaccurate: true}, {Val: 0x7, Inaccurate: true},
}

// ArgShapes is every argument-list shape with at most 4 nodes and depth <= 3,
// plus the special lists (depth-5 chain, 10 words, elisions, empty aggregate).
var ArgShapes = buildArgShapes()

func buildArgShapes() []Args {
	var out []Args
	out = append(out, Args{}) // ()
	// forests with n nodes, depth <= d
	var forests func(n, d int) [][]Arg
	memo := map[[2]int][][]Arg{}
	forests = func(n, d int) [][]Arg {
		if n == 0 {
			return [][]Arg{nil}
		}
		if d == 0 {
			return nil
		}
		k := [2]int{n, d}
		if v, ok := memo[k]; ok {
			return v
		}
		var res [][]Arg
		// first tree has size s (1..n): leaf (s==1) or aggregate with forest of s-1 nodes at depth d-1
		for s := 1; s <= n; s++ {
			var firsts []Arg
			if s == 1 {
				firsts = append(firsts, Arg{Val: 1})
			}
			if d >= 2 {
				for _, sub := range forests(s-1, d-1) {
					firsts = append(firsts, Arg{Agg: true, Fields: Args{Vals: sub}})
				}
			}
			for _, f := range firsts {
				for _, rest := range forests(n-s, d) {
					res = append(res, append([]Arg{f}, rest...))
				}
			}
		}
		memo[k] = res
		return res
	}
	for n := 1; n <= 4; n++ {
		for _, f := range forests(n, 3) {
			out = append(out, Args{Vals: f})
		}
	}
	chain := Arg{Val: 1}
	for i := 0; i < 5; i++ {
		chain = Arg{Agg: true, Fields: Args{Vals: []Arg{chain}}}
	}
	ten := Args{}
	for i := 0; i < 10; i++ {
		ten.Vals = append(ten.Vals, Arg{Val: 1})
	}
	deepEl := Arg{Agg: true, Fields: Args{Elided: true}}
	for i := 0; i < 4; i++ {
		deepEl = Arg{Agg: true, Fields: Args{Vals: []Arg{deepEl}}}
	}
	out = append(out,
		Args{Vals: []Arg{chain}},
		ten,
		Args{Vals: ten.Vals, Elided: true},
		Args{Elided: true},
		Args{Vals: []Arg{{Val: 1}}, Elided: true},
		Args{Vals: []Arg{{Agg: true, Fields: Args{Vals: []Arg{{Val: 1}}, Elided: true}}}},
		Args{Vals: []Arg{{Agg: true, Fields: Args{Vals: []Arg{{Val: 1}}, Elided: true}}, {Val: 1}}, Elided: true},
		Args{Vals: []Arg{deepEl}},
		Args{Vals: []Arg{{Agg: true}, {Val: 1}}},
		Args{Vals: []Arg{{Val: 1}, {Agg: true}}},
	)
	return out
}

// Substitute returns a deep copy of shape whose i-th leaf is LeafValues[(k+i) mod len].
func Substitute(shape Args, k int) Args {
	i := 0
	var rec func(a Args) Args
	rec = func(a Args) Args {
		o := Args{Elided: a.Elided}
		for _, v := range a.Vals {
			if v.Agg {
				o.Vals = append(o.Vals, Arg{Agg: true, Fields: rec(v.Fields)})
			} else {
				o.Vals = append(o.Vals, LeafValues[(k+i)%len(LeafValues)])
				i++
			}
		}
		return o
	}
	return rec(shape)
}

// Chooser is the part of h.Ctx the generators need.
type Chooser interface {
	Choose(n int, label string) int
}

// Env carries the alphabets that are computed at check time.
type Env struct {
	States []string
}

var indents = []string{"", "\t", "  ", "    "}
var fileIndents = []string{"\t", "    ", "        ", " "}

// GenFormat chooses a format.
func GenFormat(c Chooser) Format {
	f := Format{}
	f.Indent = indents[c.Choose(len(indents), "indent")]
	if f.Indent != "" {
		f.IndentBlank = c.Choose(2, "indent-blank") == 1
	}
	f.CRLF = c.Choose(2, "crlf") == 1
	f.NoFinalNL = c.Choose(2, "no-final-newline") == 1
	f.HdrAnn = c.Choose(3, "header-annotation")
	f.FrameAnn = c.Choose(3, "frame-annotation")
	f.FileIndent = fileIndents[c.Choose(len(fileIndents), "file-indent")]
	f.NoPC = c.Choose(2, "no-pc-offset") == 1
	return f
}

func genCall(c Chooser, tag string, withArgs bool) Call {
	s := Symbols[c.Choose(len(Symbols), tag+"sym")]
	fs := Files[c.Choose(len(Files), tag+"file")]
	call := Call{Pkg: s.Pkg, Name: s.Name, File: fs.File, Line: fs.Line}
	if withArgs {
		shape := ArgShapes[c.Choose(len(ArgShapes), tag+"argshape")]
		call.Args = Substitute(shape, c.Choose(len(LeafValues), tag+"leafvalues"))
	}
	return call
}

func fillerCall(i int) Call {
	s := Symbols[(i*7+1)%31] // skips the very long ones
	fs := Files[(i*3)%7]
	if fs.File == "??" {
		fs = Files[0]
	}
	return Call{Pkg: s.Pkg, Name: s.Name, File: fs.File, Line: fs.Line + i, Args: Substitute(ArgShapes[(i*5)%len(ArgShapes)], i)}
}

// GenGoroutine chooses one goroutine.
func GenGoroutine(c Chooser, env *Env, idx int) Goroutine {
	tag := fmt.Sprintf("g%d.", idx)
	g := Goroutine{ElidedAt: -1}
	g.ID = []int{idx + 1, 17 + idx, 999999999999999999 - idx}[c.Choose(3, tag+"id")]
	g.State = env.States[c.Choose(len(env.States), tag+"state")]
	g.State += []string{"", " (leaked)", " (scan)", " (durable)", " (leaked) (scan)"}[c.Choose(5, tag+"state-tail")]
	g.Minutes = []int{0, 1, 5, 100000000000000000}[c.Choose(4, tag+"minutes")]
	g.Locked = c.Choose(2, tag+"locked") == 1
	g.Bubble = []int{0, 3}[c.Choose(2, tag+"bubble")]
	shape := c.Choose(8, tag+"stack-shape")
	nFrames := 1
	switch shape {
	case 0:
		nFrames = 1
	case 1:
		nFrames = 2
	case 2:
		nFrames = 3
	case 3: // go <= 1.20: 100 frames then the marker
		nFrames = 100
		g.ElidedAt, g.ElidedText = 100, "...additional frames elided..."
	case 4: // go >= 1.21: 50 + marker + 50
		nFrames = 100
		g.ElidedAt, g.ElidedText = 50, "...37 frames elided..."
	case 5:
		nFrames = 150
	case 6:
		nFrames = 0
		g.Unavailable = true
	case 7:
		nFrames = 0
		g.Unavailable = true
	}
	for i := 0; i < nFrames; i++ {
		if i < 2 {
			g.Calls = append(g.Calls, genCall(c, fmt.Sprintf("%sf%d.", tag, i), true))
		} else {
			g.Calls = append(g.Calls, fillerCall(i+idx))
		}
	}
	cr := c.Choose(3, tag+"creator")
	if shape == 7 && cr == 0 {
		cr = 1
	}
	if cr != 0 {
		cc := genCall(c, tag+"cr.", false)
		if cc.Pkg == "" {
			cc.Pkg, cc.Name = "main", "mk"
		}
		g.Created = &cc
		if cr == 2 {
			g.CreatedIn = 1 + idx*10
		}
	}
	return g
}

// GenDump chooses a whole dump.
func GenDump(c Chooser, env *Env) *Dump {
	d := &Dump{}
	d.F = GenFormat(c)
	n := []int{1, 2, 3, 5}[c.Choose(4, "goroutines")]
	for i := 0; i < n; i++ {
		d.Gs = append(d.Gs, GenGoroutine(c, env, i))
	}
	return d
}

// Calls0Sym is the first frame's symbol ("" if none).
func (g Goroutine) Calls0Sym() string {
	if len(g.Calls) == 0 {
		return ""
	}
	return g.Calls[0].Sym()
}
