//go:build verif

package gen

// G-stream: labelled junk variants and labelled dumps, and their product
// J0 D1 J1 D2 J2. The labels feed the reference automaton (verifx/rline).

import (
	"strings"

	"github.com/maruel/panicparse/v2/internal/verifx/rline"
)

func ln(text string, k rline.Kind) rline.Line { return rline.Line{Text: text, Kind: k} }

func withCRLF(ls []rline.Line) []rline.Line {
	out := make([]rline.Line, len(ls))
	for i, l := range ls {
		l.CRLF = true
		out[i] = l
	}
	return out
}

func indentAll(ls []rline.Line, p string) []rline.Line {
	out := make([]rline.Line, len(ls))
	for i, l := range ls {
		l.Indent = p
		out[i] = l
	}
	return out
}

// Named is a labelled piece of a stream.
type Named struct {
	Name  string
	Lines []rline.Line
	// LastOnly: may only be the last piece (it ends without EOL).
	LastOnly bool
}

// StreamJunk is the junk alphabet of G-stream.
func StreamJunk(thorough bool) []Named {
	o := rline.OTHER
	j := []Named{
		{Name: "empty"},
		{Name: "one-line", Lines: []rline.Line{ln("some log output", o)}},
		{Name: "panic-line+blank", Lines: []rline.Line{ln("panic: boom", o), ln("", rline.BLANK)}},
		{Name: "crlf-lines", Lines: withCRLF([]rline.Line{ln("line one", o), ln("line two", o)})},
		{Name: "long-line", Lines: []rline.Line{ln(strings.Repeat("z", 40*1024), o)}},
		{Name: "binary", Lines: []rline.Line{ln("nul\x00 and \xff\xfe invalid utf8 \x1b[31m", o)}},
		{Name: "lone-sep", Lines: []rline.Line{ln("==================", rline.SEP)}},
		{Name: "sep+warn", Lines: []rline.Line{ln("==================", rline.SEP), ln("WARNING: DATA RACE", rline.WARN)}},
		{Name: "warn-only", Lines: []rline.Line{ln("WARNING: DATA RACE", rline.WARN), ln("x", o)}},
		{Name: "created-by-lookalike", Lines: []rline.Line{ln("created by x", rline.CREATED), ln("\t/a/b.go:1 +0x1", rline.FILE)}},
		{Name: "truncated-header", Lines: []rline.Line{ln("goroutine 1 [run", o)}},
		{Name: "blank-lines", Lines: []rline.Line{ln("", rline.BLANK), ln("", rline.BLANK)}},
		{Name: "unterminated", Lines: []rline.Line{{Text: "no newline at the end", Kind: o, NoEOL: true}}, LastOnly: true},
	}
	if thorough {
		j = append(j,
			Named{Name: "func-lookalike", Lines: []rline.Line{ln("--- FAIL: TestX (0.00s)", rline.FUNCLIKE)}},
			Named{Name: "sep-then-text", Lines: []rline.Line{ln("==================", rline.SEP), ln("text", o)}},
			Named{Name: "exit-status", Lines: []rline.Line{ln("exit status 2", o)}},
			Named{Name: "race-op-lookalike", Lines: []rline.Line{ln("Read at 0x00c000014100 by goroutine 7:", rline.OPHDR)}},
			Named{Name: "goroutine-section-lookalike", Lines: []rline.Line{ln("Goroutine 7 (running) created at:", rline.GHDR)}},
			Named{Name: "tab-indented-text", Lines: []rline.Line{ln("\tindented text", o)}},
			Named{Name: "unterminated-sep", Lines: []rline.Line{{Text: "==================", Kind: rline.SEP, NoEOL: true}}, LastOnly: true},
		)
	}
	return j
}

func hdr(id int, state, text string) rline.Line {
	return rline.Line{Text: text, Kind: rline.HDR, ID: id, State: state}
}

// StreamDumps is the dump alphabet of G-stream.
func StreamDumps(thorough bool) []Named {
	f, fi, b := rline.FUNC, rline.FILE, rline.BLANK
	plain := []rline.Line{
		hdr(1, "running", "goroutine 1 [running]:"), ln("main.main()", f), ln("\t/a/main.go:10 +0x1d", fi), b0(),
		hdr(7, "chan receive", "goroutine 7 [chan receive, 2 minutes]:"), ln("main.worker(0xc000012345, {0x1, 0x2})", f), ln("\t/a/w.go:22 +0x45", fi), ln("created by main.main in goroutine 1", rline.CREATED), ln("\t/a/main.go:8 +0x5", fi), b0(),
	}
	_ = b
	race := []rline.Line{
		ln("==================", rline.SEP), ln("WARNING: DATA RACE", rline.WARN),
		{Text: "Write at 0x00c000014100 by goroutine 7:", Kind: rline.OPHDR, ID: 7, Write: true}, ln("  main.w()", rline.RFUNC), ln("      /a/r.go:5 +0x3a", fi), b0(),
		{Text: "Previous read at 0x00c000014100 by goroutine 8:", Kind: rline.PREVHDR, ID: 8}, ln("  main.r()", rline.RFUNC), ln("      /a/r.go:9 +0x3a", fi), b0(),
		{Text: "Goroutine 7 (running) created at:", Kind: rline.GHDR, ID: 7, State: "running"}, ln("  main.main()", rline.RFUNC), ln("      /a/r.go:20 +0x5c", fi), b0(),
		{Text: "Goroutine 8 (finished) created at:", Kind: rline.GHDR, ID: 8, State: "finished"}, ln("  main.main()", rline.RFUNC), ln("      /a/r.go:21 +0x7e", fi),
		ln("==================", rline.SEP),
	}
	unterminated := []rline.Line{hdr(3, "select", "goroutine 3 [select]:"), ln("main.sel()", f), {Text: "\t/a/s.go:3 +0x9", Kind: fi, NoEOL: true}}
	d := []Named{
		{Name: "dump-plain", Lines: plain},
		{Name: "dump-indented", Lines: indentAll(plain[:len(plain)-1], "  ")},
		{Name: "dump-crlf", Lines: withCRLF(plain)},
		{Name: "race-report", Lines: race},
		{Name: "dump-ends-in-creator", Lines: plain[:len(plain)-1]},
		{Name: "dump-ends-in-elision", Lines: []rline.Line{hdr(5, "sleep", "goroutine 5 [sleep]:"), ln("main.rec(0x5)", f), ln("\t/a/rec.go:7 +0x2", fi), ln("...96 frames elided...", rline.ELIDED)}},
		{Name: "dump-erroneous", Lines: []rline.Line{hdr(9, "running", "goroutine 9 [running]:"), ln("main.f()", f)}},
		{Name: "dump-unavailable", Lines: []rline.Line{hdr(4, "running", "goroutine 4 [running]:"), ln("\tgoroutine running on other thread; stack unavailable", rline.UNAVAIL), b0()}},
		{Name: "dump-unterminated", Lines: unterminated, LastOnly: true},
	}
	if thorough {
		d = append(d,
			Named{Name: "race-report-crlf", Lines: withCRLF(race)},
			Named{Name: "dump-bad-args", Lines: []rline.Line{hdr(2, "running", "goroutine 2 [running]:"), ln("main.f(zz)", rline.FUNCBAD)}},
			Named{Name: "race-foreign-section", Lines: append(append([]rline.Line{}, race[:10]...), rline.Line{Text: "Goroutine 99 (running) created at:", Kind: rline.GHDR, ID: 99, State: "running"})},
		)
	}
	return d
}

func b0() rline.Line { return rline.Line{Kind: rline.BLANK} }

// ForEachStream enumerates the product J0 D1 J1 [D2 J2] (dumps==1: J0 D1 J1).
func ForEachStream(thorough bool, f func(seq int, name string, lines []rline.Line)) {
	junk := StreamJunk(thorough)
	dumps := StreamDumps(thorough)
	seq := 0
	cat := func(parts ...Named) (string, []rline.Line, bool) {
		var names []string
		var lines []rline.Line
		for i, p := range parts {
			if p.LastOnly && i != len(parts)-1 {
				return "", nil, false
			}
			if p.LastOnly && i == len(parts)-1 && len(p.Lines) == 0 {
				return "", nil, false
			}
			names = append(names, p.Name)
			lines = append(lines, p.Lines...)
		}
		// an unterminated piece must really be last: trailing empty junk after it is fine
		for i, l := range lines {
			if l.NoEOL && i != len(lines)-1 {
				return "", nil, false
			}
		}
		return strings.Join(names, " | "), lines, true
	}
	empty := Named{Name: "end"}
	for _, j0 := range junk {
		for _, d1 := range dumps {
			for _, j1 := range junk {
				if d1.LastOnly {
					if n, l, ok := cat(j0, d1); ok && j1.Name == "empty" {
						f(seq, n, l)
						seq++
					}
					continue
				}
				if j1.LastOnly {
					if n, l, ok := cat(j0, d1, j1); ok {
						f(seq, n, l)
						seq++
					}
					continue
				}
				for _, d2 := range dumps {
					for _, j2 := range junk {
						parts := []Named{j0, d1, j1, d2, j2}
						if d2.LastOnly {
							if j2.Name != "empty" {
								continue
							}
							parts = []Named{j0, d1, j1, d2}
						}
						if n, l, ok := cat(parts...); ok {
							f(seq, n, l)
							seq++
						}
					}
				}
			}
		}
	}
	_ = empty
}
