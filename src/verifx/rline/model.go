//go:build verif

// Package rline is the reference model R-line: the documented line grammar of a
// stream that contains goroutine dumps and race reports, written from the
// "from/to" comments of the state enum, the regexps' doc comments, the error
// texts pinned by the repository's tests and the statements of C02/C07/C08 —
// not by transcribing the scanner. It works on *labelled* lines (the generators
// know what they print), so it shares no recogniser with the implementation.
package rline

import (
	"fmt"
	"strings"
)

// Kind is the label of a line.
type Kind int

// Line kinds.
const (
	BLANK Kind = iota
	HDR        // goroutine N [state...]:
	FUNC       // sym(args)
	FUNCBAD    // looks like FUNC, malformed argument list or escape
	FUNCLIKE   // junk that happens to match the function shape, e.g. "--- FAIL: TestX (0.00s)"
	FILE       // indented path:line ...
	FILEBAD    // FILE with an unparsable number
	CREATED    // created by sym
	CREATEDBAD // created by <bad escape>
	ELIDED     // ...N frames elided...
	UNAVAIL    // goroutine running on other thread; stack unavailable
	SEP        // ==================
	WARN       // WARNING: DATA RACE
	OPHDR      // Read|Write at 0x.. by goroutine N:
	OPHDRBAD   // OPHDR with an unparsable address
	PREVHDR    // Previous read|write at 0x.. by goroutine N:
	GHDR       // Goroutine N (running|finished) created at:
	RFUNC      // FUNC indented as tsan prints it
	OTHER      // anything else
)

var kindNames = []string{"BLANK", "HDR", "FUNC", "FUNCBAD", "FUNCLIKE", "FILE", "FILEBAD", "CREATED", "CREATEDBAD", "ELIDED", "UNAVAIL", "SEP", "WARN", "OPHDR", "OPHDRBAD", "PREVHDR", "GHDR", "RFUNC", "OTHER"}

func (k Kind) String() string { return kindNames[k] }

// Line is a labelled line. Text carries neither the dump indentation nor the EOL.
type Line struct {
	Text   string
	Kind   Kind
	ID     int    // HDR, OPHDR, PREVHDR, GHDR
	Write  bool   // OPHDR, PREVHDR
	State  string // GHDR: running|finished; HDR: state text
	Indent string // indentation the line carries in the stream
	NoEOL  bool   // unterminated (only valid as the last line of a stream)
	CRLF   bool
}

// Bytes renders the line as it appears in the stream.
func (l Line) Bytes() []byte {
	s := l.Indent + l.Text
	switch {
	case l.NoEOL:
	case l.CRLF:
		s += "\r\n"
	default:
		s += "\n"
	}
	return []byte(s)
}

// ErrExp is what the model says about the error result.
type ErrExp int

// Error expectations.
const (
	NoErr  ErrExp = iota // must be nil (or EOF at the end of the stream)
	MustErr              // a parse error must be reported
	Either               // not fixed by the documented grammar
)

func (e ErrExp) String() string { return []string{"no-error", "must-error", "either"}[e] }

// St is the model state.
type St int

// Model states (section 4.1 of DESIGN.md).
const (
	L St = iota
	R1
	R2
	RO
	ROF
	ROL
	RB
	RG
	RGF
	RGL
	RGB
	H
	F
	FF
	C
	CF
	U
	B
)

var stNames = []string{"L", "R1", "R2", "RO", "ROF", "ROL", "RB", "RG", "RGF", "RGL", "RGB", "H", "F", "FF", "C", "CF", "U", "B"}

func (s St) String() string { return stNames[s] }

// G is the skeleton of one goroutine of the dump being read.
type G struct {
	ID        int
	First     bool
	Frames    int
	Elided    bool
	Unavail   bool
	Created   int // goroutine dump: 0/1; race: frames of the creation stack
	State     string
	Race      bool
	Write     bool
	HasSect   bool
}

// Model is the reference automaton.
type Model struct {
	St     St
	Indent string
	Gs     []G
	Sel    int
	Held   []Line // tentatively consumed SEP [WARN]
}

// Out is the verdict of one step.
type Out struct {
	Consume  bool   // the line belongs to the dump (or is tentatively held)
	EndsDump bool   // a dump ended at this line (consumed footer, or unconsumed line)
	Err      ErrExp // error expectation for the call in which this line is seen
	Released []Line // held lines that turned out to be ordinary text: they must be forwarded
	Started  bool   // this line committed the start of a dump
	Malformed bool  // a held preamble turned into a malformed report without snapshot
}

// InDump reports whether a dump is being read (held preamble does not count).
func (m *Model) InDump() bool { return m.St != L && m.St != R1 && m.St != R2 }

func (m *Model) reset() {
	m.St, m.Indent, m.Gs, m.Sel, m.Held = L, "", nil, 0, nil
}

func (m *Model) cur() *G { return &m.Gs[len(m.Gs)-1] }

func (m *Model) find(id int) int {
	for i := range m.Gs {
		if m.Gs[i].ID == id {
			return i
		}
	}
	return -1
}

// otherwiseErr is the error-ness of the "otherwise" column of the table.
func otherwiseErr(s St) ErrExp {
	switch s {
	case H, F, C, U:
		return MustErr
	case FF, CF, B:
		return NoErr
	}
	return Either
}

// Step feeds one line.
func (m *Model) Step(l Line) Out {
	switch m.St {
	case L:
		return m.stepLooking(l)
	case R1:
		if l.Kind == WARN && l.Indent == "" {
			m.St = R2
			m.Held = append(m.Held, l)
			return Out{Consume: true}
		}
		return m.release(l)
	case R2:
		if l.Kind == OPHDR && l.Indent == "" {
			m.St = RO
			m.Held = nil
			m.Gs = []G{{ID: l.ID, First: true, Race: true, Write: l.Write}}
			m.Sel = 0
			return Out{Consume: true, Started: true}
		}
		if l.Kind == OPHDRBAD && l.Indent == "" {
			// A race preamble followed by a malformed operation header is a malformed
			// report: it ends here, unconsumed, an error is allowed, there is no snapshot,
			// the preamble stays withheld.
			m.reset()
			return Out{EndsDump: true, Err: Either, Malformed: true}
		}
		return m.release(l)
	}
	// Inside a dump.
	k := l.Kind
	if m.Indent != "" && !(k == BLANK) {
		if !strings.HasPrefix(l.Indent, m.Indent) {
			e := otherwiseErr(m.St)
			if e == NoErr {
				e = Either
			}
			return m.end(e)
		}
	}
	switch m.St {
	case H:
		switch k {
		case FUNC:
			m.cur().Frames++
			m.St = F
			return Out{Consume: true}
		case UNAVAIL:
			m.cur().Unavail = true
			m.St = U
			return Out{Consume: true}
		}
		return m.end(MustErr)
	case F:
		if k == FILE {
			m.St = FF
			return Out{Consume: true}
		}
		return m.end(MustErr)
	case FF:
		switch k {
		case FUNC:
			m.cur().Frames++
			m.St = F
			return Out{Consume: true}
		case ELIDED:
			m.cur().Elided = true
			return Out{Consume: true}
		case CREATED:
			m.cur().Created = 1
			m.St = C
			return Out{Consume: true}
		case BLANK:
			m.St = B
			return Out{Consume: true}
		case FUNCBAD, CREATEDBAD, FUNCLIKE, RFUNC:
			return m.end(Either)
		}
		return m.end(NoErr)
	case C:
		if k == FILE {
			m.St = CF
			return Out{Consume: true}
		}
		return m.end(MustErr)
	case CF:
		if k == BLANK {
			m.St = B
			return Out{Consume: true}
		}
		return m.end(NoErr)
	case U:
		switch k {
		case BLANK:
			m.St = B
			return Out{Consume: true}
		case CREATED:
			m.cur().Created = 1
			m.St = C
			return Out{Consume: true}
		}
		return m.end(MustErr)
	case B:
		if k == HDR {
			// a header carrying further indentation extends the dump's indentation
			if len(l.Indent) > len(m.Indent) {
				m.Indent = l.Indent
			}
			m.Gs = append(m.Gs, G{ID: l.ID, State: l.State})
			m.St = H
			return Out{Consume: true}
		}
		return m.end(NoErr)
	case RO:
		if k == FUNC || k == RFUNC {
			m.cur().Frames++
			m.St = ROF
			return Out{Consume: true}
		}
		return m.end(Either)
	case ROF:
		if k == FILE {
			m.St = ROL
			return Out{Consume: true}
		}
		return m.end(Either)
	case ROL:
		switch k {
		case FUNC, RFUNC:
			m.cur().Frames++
			m.St = ROF
			return Out{Consume: true}
		case BLANK:
			m.St = RB
			return Out{Consume: true}
		}
		return m.end(Either)
	case RB, RGB:
		if k == PREVHDR && m.St == RB {
			m.Gs = append(m.Gs, G{ID: l.ID, Race: true, Write: l.Write})
			m.Sel = len(m.Gs) - 1
			m.St = RO
			return Out{Consume: true}
		}
		if k == GHDR {
			i := m.find(l.ID)
			if i < 0 {
				return m.end(MustErr)
			}
			m.Gs[i].State = l.State
			m.Gs[i].HasSect = true
			m.Sel = i
			m.St = RG
			return Out{Consume: true}
		}
		return m.end(Either)
	case RG:
		if k == FUNC || k == RFUNC {
			m.Gs[m.Sel].Created++
			m.St = RGF
			return Out{Consume: true}
		}
		return m.end(Either)
	case RGF:
		if k == FILE {
			m.St = RGL
			return Out{Consume: true}
		}
		return m.end(Either)
	case RGL:
		switch k {
		case FUNC, RFUNC:
			m.Gs[m.Sel].Created++
			m.St = RGF
			return Out{Consume: true}
		case BLANK:
			m.St = RGB
			return Out{Consume: true}
		case SEP:
			if l.Indent == "" {
				m.reset()
				return Out{Consume: true, EndsDump: true}
			}
		}
		return m.end(Either)
	}
	panic("rline: unknown state")
}

func (m *Model) stepLooking(l Line) Out {
	if l.NoEOL {
		return Out{} // an unterminated line is never the start of anything
	}
	switch l.Kind {
	case HDR:
		m.St = H
		m.Indent = l.Indent
		m.Gs = []G{{ID: l.ID, First: true, State: l.State}}
		return Out{Consume: true, Started: true}
	case SEP:
		if l.Indent == "" {
			m.St = R1
			m.Held = []Line{l}
			return Out{Consume: true}
		}
	}
	return Out{}
}

// release: the held preamble was not a race report. The held lines are ordinary
// text and the current line is classified again from L.
func (m *Model) release(l Line) Out {
	rel := m.Held
	m.reset()
	o := m.stepLooking(l)
	o.Released = rel
	return o
}

func (m *Model) end(e ErrExp) Out {
	m.reset()
	return Out{EndsDump: true, Err: e}
}

// Key is a canonical serialisation of the model state.
func (m *Model) Key() string {
	var b strings.Builder
	fmt.Fprintf(&b, "%s|%q|%d|h%d", m.St, m.Indent, m.Sel, len(m.Held))
	for _, g := range m.Gs {
		fmt.Fprintf(&b, "|%d,%v,%d,%v,%v,%d,%q,%v,%v,%v", g.ID, g.First, g.Frames, g.Elided, g.Unavail, g.Created, g.State, g.Race, g.Write, g.HasSect)
	}
	return b.String()
}

// Clone copies the model.
func (m *Model) Clone() *Model {
	n := *m
	n.Gs = append([]G{}, m.Gs...)
	n.Held = append([]Line{}, m.Held...)
	return &n
}

// ---- stream level ---------------------------------------------------------------

// Call is the prediction for one scanning call of the resume loop.
type Call struct {
	Pass     []int // indexes of lines forwarded by this call, in order
	Dump     []int // indexes of lines withheld as the dump of this call
	Gs       []G   // skeleton of the snapshot (nil: no snapshot)
	Err      ErrExp
	AtEOF    bool // the call ran to the end of the stream
	HeldAtEOF []int // preamble lines still held when the stream ended (statement: they are text)
	Next     int  // index of the first line the next call starts with
}

// Predict runs the model over a whole stream and cuts it into calls.
func Predict(lines []Line) []Call {
	var calls []Call
	m := &Model{}
	cur := Call{}
	var heldIdx []int
	i := 0
	for i < len(lines) {
		l := lines[i]
		wasIn := m.InDump()
		var before []G
		if wasIn {
			before = append([]G{}, m.Gs...)
		}
		o := m.Step(l)
		if len(o.Released) != 0 {
			cur.Pass = append(cur.Pass, heldIdx...)
			heldIdx = nil
		}
		switch {
		case o.Consume && !wasIn && !o.Started && !o.EndsDump:
			// tentatively held preamble line
			heldIdx = append(heldIdx, i)
		case o.Consume:
			if o.Started {
				cur.Dump = append(cur.Dump, heldIdx...)
				heldIdx = nil
			}
			cur.Dump = append(cur.Dump, i)
			if o.EndsDump {
				cur.Gs = before
				cur.Err = NoErr
				cur.Next = i + 1
				calls = append(calls, cur)
				cur = Call{}
			}
		case o.EndsDump:
			if o.Malformed {
				cur.Dump = append(cur.Dump, heldIdx...)
				heldIdx = nil
			}
			cur.Gs = before
			cur.Err = o.Err
			cur.Next = i
			calls = append(calls, cur)
			cur = Call{}
			continue // the same line is scanned again by the next call
		default:
			cur.Pass = append(cur.Pass, i)
		}
		i++
	}
	cur.AtEOF = true
	cur.Next = len(lines)
	if m.InDump() {
		cur.Gs = append([]G{}, m.Gs...)
	}
	cur.HeldAtEOF = heldIdx
	calls = append(calls, cur)
	return calls
}
