//go:build verif

// Package mc owns the iteration order of every map range of the instrumented
// (mapchoice) build: keys are first put in a canonical, content-based order and
// then permuted as the explorer decides.
package mc

import (
	"fmt"
	"reflect"
	"sort"
)

// Chooser returns a permutation of 0..n-1 for the visit number `visit` of site;
// nil means the canonical order.
var Chooser func(site string, n int) []int

// Visits counts the map ranges executed per site (diagnostics/evidence).
var Visits = map[string]int{}

func render(v reflect.Value) string {
	for v.Kind() == reflect.Pointer && !v.IsNil() {
		v = v.Elem()
	}
	if v.CanInterface() {
		return fmt.Sprintf("%+v", v.Interface())
	}
	return fmt.Sprintf("%+v", v)
}

// Keys returns the keys of m in explorer-chosen order.
func Keys[K comparable, V any](site string, m map[K]V) []K {
	type kv struct {
		k K
		s string
	}
	items := make([]kv, 0, len(m))
	for k, v := range m {
		items = append(items, kv{k, render(reflect.ValueOf(k)) + "\x00" + render(reflect.ValueOf(v))})
	}
	sort.SliceStable(items, func(i, j int) bool { return items[i].s < items[j].s })
	out := make([]K, len(items))
	for i := range items {
		out[i] = items[i].k
	}
	Visits[site]++
	if Chooser != nil && len(out) > 1 {
		if p := Chooser(site, len(out)); p != nil {
			q := make([]K, len(out))
			for i, j := range p {
				q[i] = out[j]
			}
			return q
		}
	}
	return out
}
