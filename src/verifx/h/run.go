//go:build verif

// Package h is the harness runtime shared by every injected check: sharding,
// case accounting, violation recording (with 5x re-execution), samples,
// deadlines and the per-shard result file the driver merges.
package h

import (
	"encoding/base64"
	"encoding/json"
	"fmt"
	"hash/fnv"
	"os"
	"path/filepath"
	"sort"
	"strconv"
	"strings"
	"sync"
	"time"
)

// Viol is one violation of a property on one concrete case.
type Viol struct {
	Fingerprint string         `json:"fingerprint"`
	Summary     string         `json:"summary"`
	Key         string         `json:"key"`
	Kind        string         `json:"kind,omitempty"`
	Expected    string         `json:"expected,omitempty"`
	Observed    string         `json:"observed,omitempty"`
	InputB64    string         `json:"input_b64,omitempty"`
	InputText   string         `json:"input_text,omitempty"`
	Extra       map[string]any `json:"extra,omitempty"`
	Reproduced  int            `json:"reproduced"`
}

// SetInput stores the concrete input bytes.
func (v *Viol) SetInput(b []byte) *Viol {
	v.InputB64 = base64.StdEncoding.EncodeToString(b)
	if len(b) < 4096 {
		v.InputText = string(b)
	} else {
		v.InputText = string(b[:2048]) + fmt.Sprintf("...[%d bytes]...", len(b)) + string(b[len(b)-1024:])
	}
	return v
}

// Run is the accounting object for one shard of one check.
type Run struct {
	mu           sync.Mutex
	Prop         string
	TierName     string
	Shard, N     int
	outDir       string
	start        time.Time
	deadline     time.Time
	evals        int64
	seen         map[uint64]bool // key hash -> nontrivial
	// beyond seenCap distinct keys per shard the keys are no longer remembered (memory):
	// further cases are counted as distinct, which they are by construction in an
	// enumeration; the evidence says so
	overN, overNT int
	outcomes     map[uint64]struct{}
	samples      []any
	sampleEvery  int64
	counters     map[string]int64
	extra        map[string]any
	viols        []*Viol
	violFP       map[string]int
	unreproduced []*Viol
	known        map[string]bool
	expired      bool
	replayPath   string
	notes        []string
	seed         int64
	totalViols   int
}

func hash64(s string) uint64 {
	f := fnv.New64a()
	_, _ = f.Write([]byte(s))
	return f.Sum64()
}

// Hash is exported for callers that want compact outcome strings.
func Hash(s string) string { return strconv.FormatUint(hash64(s), 16) }

// Start reads the environment prepared by the driver.
func Start(prop string) *Run {
	r := &Run{Prop: prop, TierName: "quick", N: 1, start: time.Now(),
		seen: map[uint64]bool{}, outcomes: map[uint64]struct{}{}, counters: map[string]int64{},
		extra: map[string]any{}, violFP: map[string]int{}, known: map[string]bool{}, sampleEvery: 1}
	if t := os.Getenv("VERIF_TIER"); t == "thorough" {
		r.TierName = t
	}
	if s := os.Getenv("VERIF_SHARD"); s != "" {
		parts := strings.Split(s, "/")
		if len(parts) == 2 {
			r.Shard, _ = strconv.Atoi(parts[0])
			r.N, _ = strconv.Atoi(parts[1])
		}
	}
	if r.N < 1 {
		r.N = 1
	}
	r.outDir = os.Getenv("VERIF_OUT")
	if d := os.Getenv("VERIF_DEADLINE_S"); d != "" {
		if f, err := strconv.ParseFloat(d, 64); err == nil && f > 0 {
			r.deadline = r.start.Add(time.Duration(f * float64(time.Second)))
		}
	}
	if k := os.Getenv("VERIF_KNOWN"); k != "" {
		var l []string
		if json.Unmarshal([]byte(k), &l) == nil {
			for _, fp := range l {
				r.known[fp] = true
			}
		}
	}
	r.replayPath = os.Getenv("VERIF_REPLAY")
	if s := os.Getenv("VERIF_SEED"); s != "" {
		r.seed, _ = strconv.ParseInt(s, 10, 64)
	}
	return r
}

// Thorough reports whether the thorough tier was requested.
func (r *Run) Thorough() bool { return r.TierName == "thorough" }

// Pick returns q for the quick tier and t for the thorough tier.
func (r *Run) Pick(q, t int) int {
	if r.Thorough() {
		return t
	}
	return q
}

// Mine reports whether the case with this key belongs to this shard.
func (r *Run) Mine(key string) bool {
	if r.N == 1 {
		return true
	}
	return int(hash64(key)%uint64(r.N)) == r.Shard
}

// MineIdx is index based sharding for enumerations that are expensive to generate.
func (r *Run) MineIdx(i int) bool { return r.N == 1 || i%r.N == r.Shard }

// IsKnown reports whether a fingerprint is listed as a known finding.
func (r *Run) IsKnown(fp string) bool { return r.known[fp] }

// Expired reports whether the internal deadline has passed (run ends with
// exhaustive:false and exit 0).
func (r *Run) Expired() bool {
	if r.totalViols >= 300 {
		return true // saturated with violations: no point in continuing
	}
	if r.deadline.IsZero() {
		return false
	}
	if r.expired {
		return true
	}
	if time.Now().After(r.deadline) {
		r.mu.Lock()
		r.expired = true
		r.mu.Unlock()
		return true
	}
	return false
}

// Record accounts one executed case.
func (r *Run) Record(key string, nontrivial bool, outcome string) {
	r.mu.Lock()
	defer r.mu.Unlock()
	r.evals++
	k := hash64(key)
	nt, ok := r.seen[k]
	switch {
	case !ok && len(r.seen) >= seenCap:
		r.overN++
		if nontrivial {
			r.overNT++
		}
	case !ok || (nontrivial && !nt):
		r.seen[k] = nontrivial
	}
	if len(r.outcomes) < 400000 {
		r.outcomes[hash64(outcome)] = struct{}{}
	}
}

// Sample keeps a few written-out cases (first ones, then thinning).
func (r *Run) Sample(x any) {
	r.mu.Lock()
	defer r.mu.Unlock()
	r.counters["_sample_offers"]++
	n := r.counters["_sample_offers"]
	if len(r.samples) < 3 || (len(r.samples) < 8 && (n+r.seed)%r.sampleEvery == 0) {
		r.samples = append(r.samples, x)
		if len(r.samples) >= 3 {
			r.sampleEvery = r.sampleEvery*7 + 3
		}
	}
}

// Add bumps a named counter (states, transitions, traces_validated_against_impl, ...).
func (r *Run) Add(name string, n int) {
	r.mu.Lock()
	r.counters[name] += int64(n)
	r.mu.Unlock()
}

// Max keeps the maximum of a named counter.
func (r *Run) Max(name string, n int) {
	r.mu.Lock()
	if int64(n) > r.counters[name] {
		r.counters[name] = int64(n)
	}
	r.mu.Unlock()
}

// Set stores an extra coverage key.
func (r *Run) Set(name string, v any) {
	r.mu.Lock()
	r.extra[name] = v
	r.mu.Unlock()
}

// Note appends a free text note to the evidence.
func (r *Run) Note(format string, a ...any) {
	r.mu.Lock()
	r.notes = append(r.notes, fmt.Sprintf(format, a...))
	r.mu.Unlock()
}

// Check runs f on one case; a violation is re-executed 5 times from the same
// case and only reported if every re-execution yields the same fingerprint.
func (r *Run) Check(f func() *Viol) *Viol {
	v := f()
	if v == nil {
		return nil
	}
	for i := 0; i < 5; i++ {
		w := f()
		if w == nil || w.Fingerprint != v.Fingerprint {
			r.mu.Lock()
			if len(r.unreproduced) < 20 {
				r.unreproduced = append(r.unreproduced, v)
			}
			r.mu.Unlock()
			return nil
		}
		v.Reproduced++
	}
	r.Report(v)
	return v
}

// Report records a violation (at most 5 written out per fingerprint).
func (r *Run) Report(v *Viol) {
	r.mu.Lock()
	defer r.mu.Unlock()
	r.violFP[v.Fingerprint]++
	if r.known[v.Fingerprint] {
		if r.violFP[v.Fingerprint] == 1 {
			r.viols = append(r.viols, v)
		}
		return // a known finding never saturates the run
	}
	r.totalViols++
	if r.violFP[v.Fingerprint] <= 3 && len(r.viols) < 200 {
		r.viols = append(r.viols, v)
	}
}

// ReplayFile returns the decoded replay file when the driver asked for a replay.
func (r *Run) ReplayFile() *Viol {
	if r.replayPath == "" {
		return nil
	}
	b, err := os.ReadFile(r.replayPath)
	if err != nil {
		panic(err)
	}
	v := &Viol{}
	if err := json.Unmarshal(b, v); err != nil {
		panic(err)
	}
	return v
}

// Input decodes the input bytes of a replay file.
func (v *Viol) Input() []byte {
	b, _ := base64.StdEncoding.DecodeString(v.InputB64)
	return b
}

type shardFile struct {
	Prop               string           `json:"prop"`
	Tier               string           `json:"tier"`
	Shard              int              `json:"shard"`
	N                  int              `json:"n"`
	Evaluations        int64            `json:"evaluations"`
	Distinct           int              `json:"distinct"`
	DistinctNontrivial int              `json:"distinct_nontrivial"`
	Outcomes           []string         `json:"outcomes"`
	Samples            []any            `json:"samples"`
	Counters           map[string]int64 `json:"counters"`
	Extra              map[string]any   `json:"extra"`
	Violations         []*Viol          `json:"violations"`
	ViolationCounts    map[string]int   `json:"violation_counts"`
	Unreproduced       []*Viol          `json:"unreproduced"`
	Expired            bool             `json:"expired"`
	Notes              []string         `json:"notes"`
	WallS              float64          `json:"wall_s"`
	Done               bool             `json:"done"`
}

// seenCap bounds the memory of the distinct-case bookkeeping (about 300 MB per shard).
const seenCap = 6 << 20

// Finish writes the shard file. fail is called with a message when violations
// were found and no driver is collecting them (plain `go test` use).
func (r *Run) Finish(fail func(string)) {
	r.mu.Lock()
	defer r.mu.Unlock()
	sf := shardFile{Prop: r.Prop, Tier: r.TierName, Shard: r.Shard, N: r.N, Evaluations: r.evals,
		Distinct: len(r.seen) + r.overN, DistinctNontrivial: r.overNT, Samples: r.samples, Counters: r.counters, Extra: r.extra,
		Violations: r.viols, ViolationCounts: r.violFP, Unreproduced: r.unreproduced, Expired: r.expired,
		Notes: r.notes, WallS: time.Since(r.start).Seconds(), Done: true}
	delete(sf.Counters, "_sample_offers")
	if r.overN != 0 {
		sf.Notes = append(sf.Notes, fmt.Sprintf("shard %d: distinct cases were tracked exactly for the first %d; the %d after that are counted as distinct (enumerated keys)", r.Shard, seenCap, r.overN))
	}
	for _, nt := range r.seen {
		if nt {
			sf.DistinctNontrivial++
		}
	}
	for o := range r.outcomes {
		sf.Outcomes = append(sf.Outcomes, strconv.FormatUint(o, 16))
	}
	sort.Strings(sf.Outcomes)
	if r.outDir != "" {
		b, err := json.Marshal(sf)
		if err != nil {
			panic(err)
		}
		p := filepath.Join(r.outDir, fmt.Sprintf("%s.%s.shard%02d.json", r.Prop, os.Getenv("VERIF_PART"), r.Shard))
		if err := os.WriteFile(p, b, 0o644); err != nil {
			panic(err)
		}
		return
	}
	fmt.Printf("%s shard %d/%d: evaluations=%d distinct=%d nontrivial=%d outcomes=%d counters=%v violations=%v wall=%.1fs\n",
		r.Prop, r.Shard, r.N, sf.Evaluations, sf.Distinct, sf.DistinctNontrivial, len(sf.Outcomes), sf.Counters, r.violFP, sf.WallS)
	if len(r.viols) != 0 && fail != nil {
		b, _ := json.MarshalIndent(r.viols[0], "", " ")
		fail(fmt.Sprintf("%d violation fingerprints; first:\n%s", len(r.violFP), b))
	}
}
