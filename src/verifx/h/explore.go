//go:build verif

package h

import (
	"fmt"
	"strconv"
	"strings"
)

// Ctx hands out every nondeterministic decision of a scenario. Alternative 0 is
// the default; a non-zero alternative is a deviation.
type Ctx struct {
	prefix  []int
	Choices []int
	points  []point
	parent  []point
}

type point struct {
	n     int
	label string
}

// Choose returns an alternative in [0,n). While replaying the prefix it returns
// the recorded choice; afterwards the default 0.
func (c *Ctx) Choose(n int, label string) int {
	if n <= 0 {
		panic("Choose: n <= 0 at " + label)
	}
	i := len(c.Choices)
	v := 0
	if i < len(c.prefix) {
		v = c.prefix[i]
		if v >= n {
			panic(fmt.Sprintf("explorer: replayed choice %d out of range %d at point %d (%s): nondeterminism not owned", v, n, i, label))
		}
		if i < len(c.parent) && (c.parent[i].n != n || c.parent[i].label != label) {
			panic(fmt.Sprintf("explorer: point %d changed from (%d,%s) to (%d,%s) while replaying a prefix", i, c.parent[i].n, c.parent[i].label, n, label))
		}
	}
	c.Choices = append(c.Choices, v)
	c.points = append(c.points, point{n, label})
	return v
}

// Bool is Choose(2) as a boolean (false is the default).
func (c *Ctx) Bool(label string) bool { return c.Choose(2, label) == 1 }

// Key is the canonical name of this execution: its choice vector.
func (c *Ctx) Key() string {
	var b strings.Builder
	for i, v := range c.Choices {
		if i != 0 {
			b.WriteByte('.')
		}
		b.WriteString(strconv.Itoa(v))
	}
	return b.String()
}

// Labels renders the non default choices with their labels.
func (c *Ctx) Labels() string {
	var out []string
	for i, v := range c.Choices {
		if v != 0 {
			out = append(out, fmt.Sprintf("%s=%d", c.points[i].label, v))
		}
	}
	return strings.Join(out, " ")
}

// Deviations is the number of non default choices taken.
func (c *Ctx) Deviations() int {
	n := 0
	for _, v := range c.Choices {
		if v != 0 {
			n++
		}
	}
	return n
}

// ParseKey turns a key back into a choice vector.
func ParseKey(k string) []int {
	if k == "" {
		return nil
	}
	var out []int
	for _, s := range strings.Split(k, ".") {
		v, err := strconv.Atoi(s)
		if err != nil {
			panic("bad key " + k)
		}
		out = append(out, v)
	}
	return out
}

// RunVector executes the scenario once with exactly this choice vector.
func RunVector(vec []int, scenario func(*Ctx)) *Ctx {
	c := &Ctx{prefix: vec}
	scenario(c)
	return c
}

// Explore runs scenario for every choice vector with at most bound deviations
// (bound < 0: the full product). stop, when non nil, is polled between
// executions. It returns the number of executions and whether it ran to the end.
func Explore(bound int, stop func() bool, scenario func(*Ctx)) (int, bool) {
	n := 0
	complete := true
	var rec func(prefix []int, parent []point, devs int)
	rec = func(prefix []int, parent []point, devs int) {
		if !complete {
			return
		}
		if stop != nil && stop() {
			complete = false
			return
		}
		c := &Ctx{prefix: prefix, parent: parent}
		scenario(c)
		n++
		if len(c.Choices) < len(prefix) {
			panic(fmt.Sprintf("explorer: execution consumed %d choices, prefix had %d: nondeterminism not owned", len(c.Choices), len(prefix)))
		}
		if bound >= 0 && devs+1 > bound {
			return
		}
		for i := len(prefix); i < len(c.points); i++ {
			for alt := 1; alt < c.points[i].n; alt++ {
				np := make([]int, i+1)
				copy(np, c.Choices[:i])
				np[i] = alt
				rec(np, c.points[:i+1], devs+1)
			}
		}
	}
	rec(nil, nil, 0)
	return n, complete
}

// ExploreSharded is Explore with the work dealt to shard/n: the root and the
// level-1 executions are run by every shard (they are needed to discover the
// points below them) and owned by one; level-2 subtrees are dealt round-robin and
// run only by their owner. scenario is told whether this shard owns the execution
// (only owned executions are to be recorded).
func ExploreSharded(bound, shard, n int, stop func() bool, scenario func(c *Ctx, owned bool)) (int, bool) {
	if n <= 1 {
		return Explore(bound, stop, func(c *Ctx) { scenario(c, true) })
	}
	count := 0
	complete := true
	k1, k2 := 0, 0
	var rec func(prefix []int, parent []point, devs, depth int, owned bool)
	rec = func(prefix []int, parent []point, devs, depth int, owned bool) {
		if !complete {
			return
		}
		if stop != nil && stop() {
			complete = false
			return
		}
		c := &Ctx{prefix: prefix, parent: parent}
		scenario(c, owned)
		if owned {
			count++
		}
		if len(c.Choices) < len(prefix) {
			panic(fmt.Sprintf("explorer: execution consumed %d choices, prefix had %d: nondeterminism not owned", len(c.Choices), len(prefix)))
		}
		if bound >= 0 && devs+1 > bound {
			return
		}
		for i := len(prefix); i < len(c.points); i++ {
			for alt := 1; alt < c.points[i].n; alt++ {
				np := make([]int, i+1)
				copy(np, c.Choices[:i])
				np[i] = alt
				switch depth {
				case 0:
					own := k1%n == shard
					k1++
					rec(np, c.points[:i+1], devs+1, 1, own)
				case 1:
					own := k2%n == shard
					k2++
					if own {
						rec(np, c.points[:i+1], devs+1, 2, true)
					}
				default:
					rec(np, c.points[:i+1], devs+1, depth+1, true)
				}
			}
		}
	}
	rec(nil, nil, 0, 0, shard == 0)
	return count, complete
}
