ENGINES = [
    {"name": "E1 choice-point explorer", "path": "src/verifx/h/explore.go", "serves_properties": ["C01", "C08", "C15", "C16", "C17", "C18"], "kind_free_text": "stateless deviation-bounded enumeration of choice vectors over generators written against Choose(n,label); replays a prefix and fails loudly on divergence"},
    {"name": "bounded-exhaustive product enumerators", "path": "src/inj/stack/agg_test.go", "serves_properties": ["C04", "C05", "C12", "C13"], "kind_free_text": "all multisets/permutations/triples over a finite universe, against reference models written from the property text"},
    {"name": "E2 explicit-state product search", "path": "src/inj/stack/bfs_test.go", "serves_properties": ["C02", "C03", "C07"], "kind_free_text": "BFS over (real scanningState, reference automaton R-line) with replay-from-root successors, canonical fine state key, trace validation through the public ScanSnapshot resume loop"},
    {"name": "scripted environment E3", "path": "src/inj/stack/c09_test.go", "serves_properties": ["C09", "C10", "C11"], "kind_free_text": "scripted io.Reader answering every Read from an enumerated schedule (chunk sizes, zero-length reads, EOF/err with or after data), observation hook at every Read, recording writer; builds with the reader buffer shrunk by AST rewrite"},
    {"name": "map-order instrumentation", "path": "tools/instrument/main.go", "serves_properties": ["C06", "C18"], "kind_free_text": "go/types based rewrite of every range-over-map into verifx/mc.Keys (canonical content order + explorer permutation), derived from the current tree at check time"},
    {"name": "driver", "path": "lib/driver.py", "serves_properties": [], "kind_free_text": "overlay build of the working tree, 16 shard processes, merge, known-finding classification, evidence writer"},
]
NOTES = "Every deciding step is an exhaustive enumeration within stated bounds (see evidence coverage.rule and DESIGN.md). Exit 2 = harness could not be built/run against the tree (no verdict)."
NA = {}
TEXT = {
    "C03": {
        "engine": "E2 explicit-state product search",
        "technique": "explicit-state search of all (scanner state, line symbol) pairs + bounded-exhaustive edit/corruption product of seed inputs, every call under recover",
        "text": "Every (product state, symbol) trace of the C07 search including all malformed symbols, and for 12 seed inputs covering every line kind of both grammars: all single line edits (delete, duplicate, swap, move, splice), all single token corruptions from finite alphabets (numbers, escapes at every symbol position, bracket patterns, addresses), all 256 byte substitutions at every offset of three short seeds, all truncations; each input goes through the resume loop (must terminate within lines+2 calls, with progress) and every snapshot is aggregated at 4 levels and rendered as HTML both ways under recover; growth of allocation and Read calls on n/2n/4n inputs must be linear.",
        "note": "The 'coverage-guided mutation' part of the quantifier is a sampling technique and is replaced by the bounded edit product. No wall-clock oracle.",
    },
    "C06": {
        "engine": "E1 choice-point explorer",
        "technique": "exhaustive enumeration of map-iteration permutations (instrumented build) with a bounded number of deviating loops",
        "text": "An instrumented build derived at check time from the current tree turns every `range <map>` (found by go/types) into an explorer-owned permutation; for 11 inputs chosen for ties and overlapping roots all permutations of every map of <=4 keys with <=2/3 deviating loops are enumerated through scan, path guessing, aggregation at 4 levels and both HTML renderings, and the digest of every observable must be unique. The uninstrumented build repeats each input 300/3000 times in one process as confirmation.",
        "note": "Map order under the explorer is any order the Go spec allows; a found dependence is real at spec level and confirmed on the plain build where the runtime produces it.",
    },
    "C09": {
        "engine": "scripted environment E3",
        "technique": "exhaustive enumeration of all delivery schedules of short streams on the real reader in shrunk-buffer builds + conformance runs at the shipped buffer size",
        "text": "reader.readLine of builds whose buffer array is rewritten to 4 and 8 bytes is driven over every composition of short multi-line streams into chunks (all 2^(n-1) split sets), EOF with/after the last data, zero-length reads at every position (1, 2, 99, and 100 = ErrNoProgress), with the line/rest oracle at every return; ScanSnapshot in a 64-byte build over every uniform chunk size and every chunking with <=2/3 splits must equal the single-read delivery and ground truth; the shipped 16 KiB build is run on lines of 16382..65537 bytes with splits at boundary-adjacent offsets.",
        "note": "The shrunk-buffer builds differ from the tree only in the array length of reader.buf (rewritten by AST at check time); part (c) binds the result to the real size.",
    },
    "C10": {
        "engine": "scripted environment E3",
        "technique": "exhaustive fault enumeration: every byte offset x 4 end signals x deliveries",
        "text": "For 7 (thorough 10) generated streams covering both grammars, every byte offset is the cut point, signalled as EOF after data, EOF with the last data, injected error after data, injected error with the last data, delivered at once and byte by byte, in the real and the 64-byte-buffer build; the whole resume history is checked: no panic, termination, the injected error is what ends the history and is never replaced, EOF gives EOF or a parse error only inside a dump, complete goroutines are present and identical to the uncut parse, at most one partial goroutine, forwarded bytes are a prefix of the uncut forwarding.",
        "note": "Goroutine text ranges come from the generators; where the prefix rule meets C02's conservation rule the weaker reading is used (a final unterminated line, and <=2 lines that start the dump being cut, are exempt).",
    },
    "C11": {
        "engine": "scripted environment E3",
        "technique": "exhaustive enumeration of delivery schedules with a monitor at every blocking point",
        "text": "8 labelled streams x LF/CRLF x all chunkings with <=2/3 split points + byte-at-a-time + line-at-a-time, real and 64-byte buffers; at every Read call (the source would block now) the monitor checks that every complete pass-through line delivered so far, except the last complete one or a held race preamble, has been written, and that no input is requested once the line that ends the current dump has been delivered.",
        "note": "Pass-through lines are those the reference automaton classifies so on the full stream; a race preamble needs two lines of look-ahead by the format and is exempt while it is the tail of the delivered lines. End-to-end pipe scenarios on the pp binary are part of the CLI harness.",
    },
    "C15": {
        "engine": "bounded-exhaustive product enumerators",
        "technique": "exhaustive enumeration of all assignments of boundary values to argument slots, relational oracle",
        "text": "All 8^6 (quick) / 8^7 (thorough) assignments of {5, 512KiB, 512KiB+1, P1, P2, P3, 2^63-2, 2^63-1} to argument slots spread over three goroutines, two frames, top-level and nested aggregate positions, plus 8^5 race reports, parsed with naming on and off; the labelling laws are checked relationally (not by re-running the algorithm).",
        "note": "Whether a pointer seen once is named is left open, as in the statement.",
    },
    "C02": {
        "engine": "E2 explicit-state product search",
        "technique": "explicit-state BFS over (real scanner state x reference automaton state) + replay of every explored trace through the public API",
        "text": "Breadth-first search to an empty frontier over pairs (real scanningState, reference line automaton) with a 66-symbol line alphabet under LF and CRLF; every explored (state, symbol) trace, alone and followed by junk, is replayed through the public ScanSnapshot resume loop and the bytes forwarded + final remainder must be the stream minus exactly the model's dump lines (one blank after a dump may go either way), every remainder being the stream's bytes at its position. Plus the junk x dump stream product and the end-to-end CLI runs.",
        "note": "Reference automaton src/verifx/rline/model.go is the trusted base; binds to the unexported scanningState.scan for the state key. Known finding: a stream ending right after a race preamble (pinned by three repository tests).",
    },
    "C07": {
        "engine": "E2 explicit-state product search",
        "technique": "explicit-state BFS over (real scanner state x reference automaton state) + replay of every explored trace through the public API",
        "text": "Same product search: every sequence of line kinds within caps from every reachable scanner state; step-wise agreement with the reference automaton on consume / end-clean / end-invalid and on the goroutine skeleton; every trace replayed through the public resume loop: snapshot count, skeleton, resume position, error class, and equality of each snapshot with the same dump parsed alone.",
        "note": "Reference automaton is the trusted base; enabledness of indented symbols is decided from the model state; caps G/F/K stated in the evidence.",
    },
    "C08": {
        "engine": "E1 choice-point explorer",
        "technique": "exhaustive enumeration of the structural product of a tsan report printer model against ground truth",
        "text": "Full product of the structural dimensions of a race report (2..3 operations, every subset of goroutines with a creation section, every order of sections, running/finished, foreign section at every position, 4 surroundings) x 8 content assignments (quick) / all content vectors with <=4 deviations (thorough), each parsed by the real ScanSnapshot and compared with the ground truth per goroutine; the race rows of the line grammar are also in the C07 search.",
        "note": "Trusts the report printer model; a report in which no goroutine has a creation section is outside the statement's format and only its goroutines are checked.",
    },
    "C13": {
        "engine": "bounded-exhaustive product enumerators",
        "technique": "exhaustive enumeration of all ordered triples of a signature universe on the real comparator + all pair/triple snapshots through Aggregate",
        "text": "The strict-weak-order laws (irreflexive, asymmetric, transitive, transitive incomparability) and the class contract (user code before all-stdlib, more package-main frames first) are evaluated on every ordered triple of a universe of 113 (quick) / 300+ (thorough) signatures spanning every frame-class sequence; every pair and triple of distinct signatures, with multiplicities and the first goroutine at each position, is pushed through the real Aggregate and the emitted order is checked.",
        "note": "Binds to the unexported Signature.less for the law part; frames that are both package main and Stdlib (go-test main) count as main.",
    },
    "C01": {
        "engine": "E1 choice-point explorer",
        "technique": "deviation-bounded exhaustive enumeration of a traceback-printer model's choice vectors against ground truth",
        "text": "A Go model of runtime/traceback.go's printer emits text plus the structure it printed; every choice vector with <=2 (quick) / <=3 (thorough) deviations from the plainest dump, the full product of the format dimensions and the full symbol x file product are parsed by the real ScanSnapshot and compared field by field with the ground truth. The compositions (indentation x second goroutine, escape x position, annotation x CRLF ...) are covered by construction.",
        "note": "Trusts the printer model (state strings are read from the installed runtimes' sources at check time). The live-runtime part of the quantifier is exercised by C20's workload dumps.",
    },
    "C04": {
        "engine": "bounded-exhaustive product enumerators",
        "technique": "bounded-exhaustive enumeration of all multisets (<=4) x arrival orders x levels on the real Aggregate",
        "text": "Every multiset of up to 4 goroutines from a universe of signature variants (each attribute the aggregator looks at deviating alone and in selected pairs), in every arrival order, with the first flag at every position, named and unnamed pointers, at all four levels, is aggregated by the real code and the partition laws are checked on each result; plus structured snapshots of 2 000 and 10 000 goroutines. Exhaustive within that bound, which contains every composition (merge after merge, re-keying, ties) a unit-test table does not.",
        "note": "Assumes aggregation looks at goroutines only through the attributes varied in the universe (state, creator, lock, sleep, frames, argument trees, names); snapshots are constructed directly from public struct fields.",
    },
    "C05": {
        "engine": "bounded-exhaustive product enumerators",
        "technique": "bounded-exhaustive enumeration vs an independently written reference partition key",
        "text": "Same enumeration as C04; for every case the bucket partition is compared with the partition induced by a canonical per-level key written from the property text (soundness and completeness at once), refinement between levels is checked, and because every arrival order is enumerated, order independence is decided rather than sampled.",
        "note": "The reference key is the trusted base (src/inj/stack/agg_test.go refKey). Creator identity = created-by frame as parsed; IsInaccurate is not varied.",
    },
    "C12": {
        "engine": "bounded-exhaustive product enumerators",
        "technique": "bounded-exhaustive enumeration vs per-position generalisation reference",
        "text": "Same enumeration as C04; every bucket signature is compared with the per-position generalisation of its members computed independently (common value kept with its name, differing value starred, sleep min/max, lock OR, identical state/creator/frames), with the differing member arriving at every position.",
        "note": "Reference generalisation in checkBucketSignature is the trusted base.",
    },
}
