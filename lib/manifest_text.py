ENGINES = [
    {"name": "E1 choice-point explorer", "path": "src/verifx/h/explore.go", "serves_properties": ["C01", "C08", "C15", "C16", "C17", "C18"], "kind_free_text": "stateless deviation-bounded enumeration of choice vectors over generators written against Choose(n,label); replays a prefix and fails loudly on divergence"},
    {"name": "bounded-exhaustive product enumerators", "path": "src/inj/stack/agg_test.go", "serves_properties": ["C04", "C05", "C12", "C13"], "kind_free_text": "all multisets/permutations/triples over a finite universe, against reference models written from the property text"},
    {"name": "E2 explicit-state product search", "path": "src/inj/stack/bfs_test.go", "serves_properties": ["C02", "C03", "C07"], "kind_free_text": "BFS over (real scanningState, reference automaton R-line) with replay-from-root successors, canonical fine state key, trace validation through the public ScanSnapshot resume loop"},
    {"name": "driver", "path": "lib/driver.py", "serves_properties": [], "kind_free_text": "overlay build of the working tree, 16 shard processes, merge, known-finding classification, evidence writer"},
]
NOTES = "Every deciding step is an exhaustive enumeration within stated bounds (see evidence coverage.rule and DESIGN.md). Exit 2 = harness could not be built/run against the tree (no verdict)."
NA = {}
TEXT = {
    "C02": {
        "engine": "E2 explicit-state product search",
        "technique": "explicit-state BFS over (real scanner state x reference automaton state) + replay of every explored trace through the public API",
        "text": "Breadth-first search to an empty frontier over pairs (real scanningState, reference line automaton) with a 66-symbol line alphabet under LF and CRLF; every explored (state, symbol) trace, alone and followed by junk, is replayed through the public ScanSnapshot resume loop and the bytes forwarded + final remainder must be the stream minus exactly the model's dump lines (one blank after a dump may go either way), every remainder being the stream's bytes at its position. Plus the junk x dump stream product and the end-to-end CLI runs.",
        "note": "Reference automaton src/verifx/rline/model.go is the trusted base; binds to the unexported scanningState.scan for the state key. Known finding: a stream ending right after a race preamble (pinned by three repository tests).",
    },
    "C07": {
        "engine": "E2 explicit-state product search",
        "technique": "explicit-state BFS over (real scanner state x reference automaton state) + replay of every explored trace through the public API",
        "text": "Same product search: every sequence of line kinds within caps from every reachable scanner state; step-wise agreement with the reference automaton on consume / end-clean / end-invalid and on the goroutine skeleton; every trace replayed through the public resume loop: snapshot count, skeleton, resume position, error class, and equality of each snapshot with the same dump parsed alone.",
        "note": "Reference automaton is the trusted base; enabledness of indented symbols is decided from the model state; caps G/F/K stated in the evidence.",
    },
    "C08": {
        "engine": "E1 choice-point explorer",
        "technique": "exhaustive enumeration of the structural product of a tsan report printer model against ground truth",
        "text": "Full product of the structural dimensions of a race report (2..3 operations, every subset of goroutines with a creation section, every order of sections, running/finished, foreign section at every position, 4 surroundings) x 8 content assignments (quick) / all content vectors with <=4 deviations (thorough), each parsed by the real ScanSnapshot and compared with the ground truth per goroutine; the race rows of the line grammar are also in the C07 search.",
        "note": "Trusts the report printer model; a report in which no goroutine has a creation section is outside the statement's format and only its goroutines are checked.",
    },
    "C13": {
        "engine": "bounded-exhaustive product enumerators",
        "technique": "exhaustive enumeration of all ordered triples of a signature universe on the real comparator + all pair/triple snapshots through Aggregate",
        "text": "The strict-weak-order laws (irreflexive, asymmetric, transitive, transitive incomparability) and the class contract (user code before all-stdlib, more package-main frames first) are evaluated on every ordered triple of a universe of 113 (quick) / 300+ (thorough) signatures spanning every frame-class sequence; every pair and triple of distinct signatures, with multiplicities and the first goroutine at each position, is pushed through the real Aggregate and the emitted order is checked.",
        "note": "Binds to the unexported Signature.less for the law part; frames that are both package main and Stdlib (go-test main) count as main.",
    },
    "C01": {
        "engine": "E1 choice-point explorer",
        "technique": "deviation-bounded exhaustive enumeration of a traceback-printer model's choice vectors against ground truth",
        "text": "A Go model of runtime/traceback.go's printer emits text plus the structure it printed; every choice vector with <=2 (quick) / <=3 (thorough) deviations from the plainest dump, the full product of the format dimensions and the full symbol x file product are parsed by the real ScanSnapshot and compared field by field with the ground truth. The compositions (indentation x second goroutine, escape x position, annotation x CRLF ...) are covered by construction.",
        "note": "Trusts the printer model (state strings are read from the installed runtimes' sources at check time). The live-runtime part of the quantifier is exercised by C20's workload dumps.",
    },
    "C04": {
        "engine": "bounded-exhaustive product enumerators",
        "technique": "bounded-exhaustive enumeration of all multisets (<=4) x arrival orders x levels on the real Aggregate",
        "text": "Every multiset of up to 4 goroutines from a universe of signature variants (each attribute the aggregator looks at deviating alone and in selected pairs), in every arrival order, with the first flag at every position, named and unnamed pointers, at all four levels, is aggregated by the real code and the partition laws are checked on each result; plus structured snapshots of 2 000 and 10 000 goroutines. Exhaustive within that bound, which contains every composition (merge after merge, re-keying, ties) a unit-test table does not.",
        "note": "Assumes aggregation looks at goroutines only through the attributes varied in the universe (state, creator, lock, sleep, frames, argument trees, names); snapshots are constructed directly from public struct fields.",
    },
    "C05": {
        "engine": "bounded-exhaustive product enumerators",
        "technique": "bounded-exhaustive enumeration vs an independently written reference partition key",
        "text": "Same enumeration as C04; for every case the bucket partition is compared with the partition induced by a canonical per-level key written from the property text (soundness and completeness at once), refinement between levels is checked, and because every arrival order is enumerated, order independence is decided rather than sampled.",
        "note": "The reference key is the trusted base (src/inj/stack/agg_test.go refKey). Creator identity = created-by frame as parsed; IsInaccurate is not varied.",
    },
    "C12": {
        "engine": "bounded-exhaustive product enumerators",
        "technique": "bounded-exhaustive enumeration vs per-position generalisation reference",
        "text": "Same enumeration as C04; every bucket signature is compared with the per-position generalisation of its members computed independently (common value kept with its name, differing value starred, sleep min/max, lock OR, identical state/creator/frames), with the differing member arriving at every position.",
        "note": "Reference generalisation in checkBucketSignature is the trusted base.",
    },
}
