#!/usr/bin/env python3
"""Regenerates MANIFEST.json from lib/props.py + lib/manifest_text.py."""
import json, os, sys
VERIF = os.path.dirname(os.path.dirname(os.path.abspath(__file__)))
sys.path.insert(0, os.path.join(VERIF, "lib"))
import props, manifest_text as mt

ALL = ["C%02d" % i for i in range(1, 21)]
checks = []
na = []
for pid in ALL:
    if pid in props.PROPS and pid in mt.TEXT:
        t = mt.TEXT[pid]
        checks.append({
            "property_id": pid,
            "quick_cmd": "./check %s quick" % pid,
            "thorough_cmd": "./check %s thorough" % pid,
            "evidence_file": "evidence/%s.json" % pid,
            "replay_cmd_template": "./check %s --replay {path}" % pid,
            "engine": t["engine"],
            "level_claimed": {"category": props.PROPS[pid]["level"], "text": t["text"], "design_ref": "DESIGN.md section 5, " + pid},
            "level_note": t["note"],
            "technique": t["technique"],
        })
    else:
        na.append({"property_id": pid, "reason": mt.NA.get(pid, "check not built yet in this session; model-checking design for it is in DESIGN.md section 5")})
m = {
    "version": 1,
    "setup_cmd": "./setup.sh",
    "hooks": {
        "guard": "verif",
        "enable": "cd /repo && go test -c -tags verif -vet=off -overlay <generated overlay.json> ./stack   (overlay injects /verif/src/inj/**/ as zz_verif_*_test.go, adds virtual package internal/verifx, and replaces files by instrumented copies derived from the current tree; nothing is committed to /repo)",
        "baseline_off_cmd": "cd /repo && GOFLAGS=-mod=mod GOPROXY=off GOSUMDB=off GOTOOLCHAIN=local go test -vet=off -count=1 ./...",
        "source_commits": [],
        "add_only": True,
    },
    "engines": mt.ENGINES,
    "checks": checks,
    "notes": mt.NOTES,
    "not_applicable": na,
}
with open(os.path.join(VERIF, "MANIFEST.json"), "w") as f:
    json.dump(m, f, indent=1)
    f.write("\n")
print("claimed:", [c["property_id"] for c in checks])
