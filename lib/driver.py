#!/usr/bin/env python3
"""Driver for the panicparse model-checking harness.

check <id> [quick|thorough] [--replay <path>]

Builds the current working tree of $VERIF_REPO (default /repo) together with the
injected harness files (go test -c -tags verif -overlay ...), runs the shards of
every part of the property's check, merges their result files, classifies
violations against known_findings.json, writes evidence/<id>.json and prints
KNOWN-FINDING / VIOLATION lines.  Exit 0: property held on everything explored;
1: violation; 2: the harness could not be built or run (no verdict).
"""
import hashlib
import json
import os
import shutil
import subprocess
import sys
import tempfile
import time

VERIF = os.path.dirname(os.path.dirname(os.path.abspath(__file__)))
sys.path.insert(0, os.path.join(VERIF, "lib"))
import props  # noqa: E402

REPO = os.environ.get("VERIF_REPO", "/repo")
NCPU = int(os.environ.get("VERIF_JOBS", "16"))
MODPATH = "github.com/maruel/panicparse/v2"


def goenv():
    e = dict(os.environ)
    e.update({
        "GOFLAGS": "-mod=mod", "GOPROXY": "off", "GOSUMDB": "off", "GOTOOLCHAIN": "local",
        "GOCACHE": os.path.join(VERIF, ".cache", "go-build"),
        "CGO_ENABLED": e.get("CGO_ENABLED", "1"),
    })
    e.pop("GOROOT", None)
    return e


def log(*a):
    print(*a, file=sys.stderr, flush=True)


def build_instrument_tool():
    out = os.path.join(VERIF, ".cache", "instrument")
    src = os.path.join(VERIF, "tools", "instrument")
    newest = max(os.path.getmtime(os.path.join(src, f)) for f in os.listdir(src))
    if os.path.exists(out) and os.path.getmtime(out) >= newest:
        return out
    os.makedirs(os.path.dirname(out), exist_ok=True)
    r = subprocess.run(["go", "build", "-o", out, "."], cwd=src, env=goenv(), capture_output=True, text=True)
    if r.returncode != 0:
        raise SystemExit("HARNESS-BUILD-FAILURE instrument tool\n" + r.stdout + r.stderr)
    return out


def make_overlay(scratch, variant):
    """variant: 'plain' | 'smallbuf-N' | 'mapchoice' (race uses plain overlay + -race)."""
    repl = {}
    # injected in-package harness files
    for sub, pkgdir in (("stack", "stack"), ("internal", "internal"), ("webstack", "stack/webstack"), ("cmdpp", "cmd/pp")):
        d = os.path.join(VERIF, "src", "inj", sub)
        if not os.path.isdir(d):
            continue
        for f in sorted(os.listdir(d)):
            if f.endswith(".go"):
                repl[os.path.join(REPO, pkgdir, "zz_verif_" + f)] = os.path.join(d, f)
    # virtual package(s)
    vx = os.path.join(VERIF, "src", "verifx")
    for root, _dirs, files in os.walk(vx):
        rel = os.path.relpath(root, vx)
        for f in files:
            if f.endswith(".go"):
                repl[os.path.normpath(os.path.join(REPO, "internal", "verifx", rel, f))] = os.path.join(root, f)
    notes = []
    if variant.startswith("smallbuf-") or variant == "mapchoice":
        tool = build_instrument_tool()
        outdir = os.path.join(scratch, "instr-" + variant)
        os.makedirs(outdir, exist_ok=True)
        mode = "smallbuf" if variant.startswith("smallbuf-") else "mapchoice"
        args = [tool, "-mode", mode, "-repo", REPO, "-out", outdir]
        if mode == "smallbuf":
            args += ["-n", variant.split("-")[1]]
        r = subprocess.run(args, env=goenv(), capture_output=True, text=True)
        if r.returncode != 0:
            raise InstrumentFailure("instrument %s: %s%s" % (variant, r.stdout, r.stderr))
        info = json.loads(r.stdout)
        for orig, new in info.get("replace", {}).items():
            repl[orig] = new
        notes = info.get("notes", [])
    p = os.path.join(scratch, "overlay-%s.json" % variant)
    with open(p, "w") as f:
        json.dump({"Replace": repl}, f)
    return p, notes


class BuildFailure(Exception):
    pass


class InstrumentFailure(BuildFailure):
    """The derived build (smallbuf / mapchoice) could not be produced from this tree."""


def files_defining(tests):
    """Injected files that define the given test functions: they must stay in the build."""
    keep = set()
    for root, _d, files in os.walk(os.path.join(VERIF, "src", "inj")):
        for f in files:
            if f.endswith(".go"):
                p = os.path.join(root, f)
                txt = open(p).read()
                if any(("func %s(" % t) in txt for t in tests):
                    keep.add(p)
    return keep


def build_test(scratch, pkgdir, variant, race=False, tests=()):
    """Builds the test binary. If an injected harness file that this check does not need fails to
    compile against the tree (it binds to an unexported name that changed), it is dropped and the
    build retried, so that one stale binding does not take every check of the package down."""
    ov, notes = make_overlay(scratch, variant)
    out = os.path.join(scratch, "%s.%s%s.test" % (pkgdir.replace("/", "_"), variant, ".race" if race else ""))
    keep = files_defining(tests)
    t0 = time.time()
    dropped = []
    for _attempt in range(8):
        cmd = ["go", "test", "-c", "-tags", "verif", "-vet=off", "-overlay", ov, "-o", out]
        if race:
            cmd.append("-race")
        cmd.append("./" + pkgdir)
        r = subprocess.run(cmd, cwd=REPO, env=goenv(), capture_output=True, text=True)
        if r.returncode == 0 and os.path.exists(out):
            break
        import re
        bad = set(m for m in re.findall(r"(/[^\s:]*/src/inj/[^\s:]+\.go):\d+", r.stdout + r.stderr))
        removable = [b for b in bad if b not in keep]
        if _attempt == 0:
            log("note: first build attempt failed:\n" + "\n".join((r.stdout + r.stderr).splitlines()[:6]))
        if not removable:
            raise BuildFailure("go test -c %s (%s): %s%s" % (pkgdir, variant, r.stdout, r.stderr))
        with open(ov) as f:
            o = json.load(f)
        o["Replace"] = {k: v for k, v in o["Replace"].items() if v not in removable}
        with open(ov, "w") as f:
            json.dump(o, f)
        dropped += removable
    else:
        raise BuildFailure("go test -c %s (%s): still failing after dropping %s" % (pkgdir, variant, dropped))
    if dropped:
        notes = notes + ["harness files dropped because they no longer compile against this tree (not needed by this check): " + ", ".join(sorted(os.path.basename(d) for d in set(dropped)))]
        log("note: dropped " + ", ".join(sorted(os.path.basename(d) for d in set(dropped))))
    log("built %s %s%s in %.1fs" % (pkgdir, variant, " race" if race else "", time.time() - t0))
    return out, notes


def build_pp(scratch):
    out = os.path.join(scratch, "pp")
    r = subprocess.run(["go", "build", "-o", out, "./cmd/pp"], cwd=REPO, env=goenv(), capture_output=True, text=True)
    if r.returncode != 0:
        raise BuildFailure("go build ./cmd/pp: " + r.stdout + r.stderr)
    return out


def load_known(prop):
    p = os.path.join(VERIF, "known_findings.json")
    if not os.path.exists(p):
        return {}, []
    with open(p) as f:
        data = json.load(f)
    known = {}
    fixed = []
    for e in data.get("findings", []):
        if e.get("property") != prop:
            continue
        if e.get("status") == "known":
            known[e["fingerprint"]] = e
        elif e.get("status") == "fixed":
            fixed.append(e)
    return known, fixed


def run_parts(prop, tier, scratch, parts, known, replay=None):
    outdir = os.path.join(scratch, "out")
    os.makedirs(outdir, exist_ok=True)
    bins = {}
    build_notes = []
    need_pp = any(p.get("needs_pp") for p in parts)
    pp = build_pp(scratch) if need_pp else ""
    tests_by_key = {}
    for part in parts:
        k = (part["pkg"], part.get("variant", "plain"), bool(part.get("race")))
        tests_by_key.setdefault(k, set()).add(part["test"])
    skipped = set()
    for part in parts:
        k = (part["pkg"], part.get("variant", "plain"), bool(part.get("race")))
        if k not in bins and k not in skipped:
            try:
                b, notes = build_test(scratch, k[0], k[1], k[2], tests_by_key[k])
            except InstrumentFailure as e:
                # the tree no longer has the pattern the instrumentation rewrites: that
                # variant is skipped (stated in the evidence), the other parts still run
                skipped.add(k)
                build_notes.append("variant %s skipped: %s" % (k[1], str(e).strip()[:200]))
                log("note: variant %s skipped: %s" % (k[1], str(e).strip()[:300]))
                continue
            bins[k] = b
            build_notes += notes
    parts = [p for p in parts if (p["pkg"], p.get("variant", "plain"), bool(p.get("race"))) in bins]
    procs = []
    t_start = time.time()
    for part in parts:
        if tier == "quick" and part.get("thorough_only"):
            continue
        k = (part["pkg"], part.get("variant", "plain"), bool(part.get("race")))
        shards = part.get("shards", NCPU)
        if replay:
            shards = 1
        deadline = part.get("deadline_s", {}).get(tier, 600 if tier == "quick" else 3600)
        for i in range(shards):
            env = goenv()
            env.update({
                "VERIF_TIER": tier, "VERIF_SHARD": "%d/%d" % (i, shards), "VERIF_OUT": outdir,
                "VERIF_PART": part["name"], "VERIF_PROP_ID": prop, "VERIF_DEADLINE_S": str(deadline), "VERIF_KNOWN": json.dumps(sorted(known)),
                "VERIF_PP": pp, "VERIF_SCRATCH": scratch, "VERIF_REPO_DIR": REPO, "VERIF_DIR": VERIF,
                "VERIF_SEED": os.environ.get("VERIF_SEED", "0"),
                "GOMAXPROCS": str(part.get("gomaxprocs", 1)),
                "GOTRACEBACK": "all", "TERM": "dumb", "HOME": os.path.join(scratch, "home"),
                "GOPATH": os.path.join(scratch, "gopath-default"),
            })
            if part.get("race"):
                env["GORACE"] = "halt_on_error=0 exitcode=66 log_path=%s" % os.path.join(outdir, "race.%s.%d" % (part["name"], i))
            if replay:
                env["VERIF_REPLAY"] = replay
            if part.get("env"):
                env.update(part["env"])
            os.makedirs(env["HOME"], exist_ok=True)
            lf = open(os.path.join(outdir, "%s.%s.%02d.log" % (prop, part["name"], i)), "w")
            cmd = [bins[k], "-test.run", "^%s$" % part["test"], "-test.count=1", "-test.timeout=%ds" % int(deadline * 3 + 120)]
            if replay or os.environ.get("VERIF_VERBOSE"):
                cmd.append("-test.v")
            if part.get("ulimit_v_kb"):
                cmd = ["bash", "-c", "ulimit -v %d; exec \"$@\"" % part["ulimit_v_kb"], "sh"] + cmd
            cwd = os.path.join(REPO, part["pkg"])
            pr = subprocess.Popen(cmd, cwd=cwd, env=env, stdout=lf, stderr=subprocess.STDOUT)
            procs.append((part, i, pr, lf, deadline))
    failed = []
    for part, i, pr, lf, deadline in procs:
        rc = None
        while rc is None:
            remaining = t_start + deadline * 3 + 180 - time.time()
            try:
                rc = pr.wait(timeout=2.0)
            except subprocess.TimeoutExpired:
                # safety net: a shard that runs away (time or memory) is killed; that
                # is a missing verdict (exit 2), never a violation
                for qpart, qi, q, _, _ in procs:
                    if q.poll() is None and rss_gb(q.pid) > RSS_LIMIT_GB:
                        log("killing shard %s/%d: resident memory above %d GB" % (qpart["name"], qi, RSS_LIMIT_GB))
                        q.kill()
                if remaining <= 0:
                    log("killing shard %s/%d: deadline" % (part["name"], i))
                    pr.kill()
        lf.close()
        if rc != 0:
            if part.get("race") and any(f.startswith("race.%s.%d." % (part["name"], i)) for f in os.listdir(outdir)):
                continue  # the race detector reported: turned into violations by race_violations()
            failed.append((part["name"], i, rc, lf.name))
    return outdir, failed, build_notes


RSS_LIMIT_GB = int(os.environ.get("VERIF_RSS_LIMIT_GB", "12"))


def rss_gb(pid):
    try:
        with open("/proc/%d/statm" % pid) as f:
            return int(f.read().split()[1]) * 4096 / float(1 << 30)
    except Exception:
        return 0.0


def race_violations(prop, outdir):
    """Turns the race detector's log files into violations (fingerprint = the two racing functions)."""
    import re
    out = []
    for f in sorted(os.listdir(outdir)):
        if not f.startswith("race."):
            continue
        txt = open(os.path.join(outdir, f), errors="replace").read()
        for rep in txt.split("==================\nWARNING: DATA RACE")[1:]:
            fns = []
            for blk in rep.split("\n\n")[:2]:
                for line in blk.splitlines()[1:]:
                    line = line.strip()
                    if "panicparse/v2/" in line and "zz_verif" not in line and line.endswith("()"):
                        fn = line[:-2].split("/")[-1]
                        fns.append(fn)
                        break
            fp = "%s/data-race:%s" % (prop, "+".join(sorted(set(fns))) or "unknown")
            out.append({"fingerprint": fp, "summary": "the race detector reported a data race between " + " and ".join(fns or ["?"]),
                        "key": f, "kind": "race", "observed": ("WARNING: DATA RACE" + rep)[:4000], "reproduced": 1})
    return out


def merge(prop, outdir):
    m = {"evaluations": 0, "distinct": 0, "distinct_nontrivial": 0, "outcomes": set(), "samples": [], "counters": {},
         "extra": {}, "violations": [], "violation_counts": {}, "unreproduced": [], "expired": False, "notes": [],
         "shards": 0}
    files = sorted(f for f in os.listdir(outdir) if f.endswith(".json") and ".shard" in f)
    for f in files:
        with open(os.path.join(outdir, f)) as fh:
            s = json.load(fh)
        m["shards"] += 1
        m["evaluations"] += s["evaluations"]
        m["distinct"] += s["distinct"]
        m["distinct_nontrivial"] += s["distinct_nontrivial"]
        m["outcomes"].update(s.get("outcomes") or [])
        for x in (s.get("samples") or []):
            if len(m["samples"]) < 12:
                m["samples"].append(x)
        for k, v in (s.get("counters") or {}).items():
            if k.startswith("max_"):
                m["counters"][k] = max(m["counters"].get(k, 0), v)
            else:
                m["counters"][k] = m["counters"].get(k, 0) + v
        for k, v in (s.get("extra") or {}).items():
            if k not in m["extra"]:
                m["extra"][k] = v
            elif isinstance(v, bool) and isinstance(m["extra"][k], bool) and k.startswith("all_"):
                m["extra"][k] = m["extra"][k] and v
        m["violations"] += s.get("violations") or []
        for k, v in (s.get("violation_counts") or {}).items():
            m["violation_counts"][k] = m["violation_counts"].get(k, 0) + v
        m["unreproduced"] += s.get("unreproduced") or []
        m["expired"] = m["expired"] or s.get("expired", False)
        for n in s.get("notes") or []:
            if n not in m["notes"]:
                m["notes"].append(n)
    return m


def validate_evidence(ev):
    """Minimal structural validation mirroring EVIDENCE.schema.json (jsonschema is used when importable)."""
    try:
        import jsonschema  # type: ignore
        with open("/root/.vp/EVIDENCE.schema.json") as f:
            jsonschema.validate(ev, json.load(f))
        return
    except ImportError:
        pass
    except FileNotFoundError:
        pass
    for k in ("property_id", "tier", "seed", "level", "coverage", "wall_s"):
        assert k in ev, "evidence lacks " + k
    c = ev["coverage"]
    if ev["level"] in ("exploration", "fault_enumeration"):
        assert c["evaluations"] >= 1 and c["distinct_nontrivial"] >= 2 and isinstance(c["rule"], str) and len(c["samples"]) >= 1
    elif ev["level"] == "model_checking":
        if all(k in c for k in ("states", "transitions", "traces_validated_against_impl", "samples")):
            assert c["states"] >= 1 and c["transitions"] >= 1 and len(c["samples"]) >= 1
        else:
            assert c["evaluations"] >= 1 and c["distinct_nontrivial"] >= 2


def warm():
    """setup: build every (package, variant) combination once so later checks hit a warm GOCACHE."""
    scratch = tempfile.mkdtemp(prefix="verif-warm-")
    try:
        combos = set()
        need_pp = False
        for cfg in props.PROPS.values():
            for p in cfg["parts"]:
                combos.add((p["pkg"], p.get("variant", "plain"), bool(p.get("race"))))
                need_pp = need_pp or p.get("needs_pp")
        for pkg, variant, race in sorted(combos):
            try:
                build_test(scratch, pkg, variant, race)
            except BuildFailure as e:
                log("warm: " + str(e))
                return 2
        if need_pp:
            build_pp(scratch)
        return 0
    finally:
        shutil.rmtree(scratch, ignore_errors=True)


def main(argv):
    if len(argv) < 2:
        raise SystemExit(__doc__)
    if argv[1] == "--warm":
        return warm()
    prop = argv[1]
    tier = os.environ.get("VERIF_TIER", "quick")
    replay = None
    i = 2
    while i < len(argv):
        if argv[i] in ("quick", "thorough"):
            tier = argv[i]
        elif argv[i] == "--replay":
            replay = os.path.abspath(argv[i + 1])
            i += 1
        i += 1
    if prop not in props.PROPS:
        raise SystemExit("unknown property " + prop)
    cfg = props.PROPS[prop]
    seed = int(os.environ.get("VERIF_SEED", "0") or 0)
    t0 = time.time()
    scratch = tempfile.mkdtemp(prefix="verif-%s-" % prop)
    known, fixed = load_known(prop)
    rc = 0
    try:
        try:
            outdir, failed, build_notes = run_parts(prop, tier, scratch, cfg["parts"], known, replay)
        except BuildFailure as e:
            print("HARNESS-BUILD-FAILURE property=%s: the harness does not build against the working tree (no verdict)" % prop)
            log(str(e))
            return 2
        if replay:
            for f in sorted(os.listdir(outdir)):
                if f.endswith(".log"):
                    sys.stdout.write(open(os.path.join(outdir, f)).read())
            return 1 if failed else 0
        m = merge(prop, outdir)
        for v in race_violations(prop, outdir):
            m["violations"].append(v)
            m["violation_counts"][v["fingerprint"]] = m["violation_counts"].get(v["fingerprint"], 0) + 1
        if failed:
            for name, i, rcode, lf in failed:
                log("shard %s/%d exited %s; tail of log:" % (name, i, rcode))
                try:
                    log("".join(open(lf).readlines()[-40:]))
                except OSError:
                    pass
        # classify
        new_fps = {}
        known_hits = {}
        for v in m["violations"]:
            fp = v["fingerprint"]
            if fp in known:
                known_hits.setdefault(fp, v)
            else:
                new_fps.setdefault(fp, v)
        for fp, v in sorted(known_hits.items()):
            print("KNOWN-FINDING: property=%s %s — %s (%d cases this run)" % (prop, fp, known[fp].get("what", v["summary"]), m["violation_counts"].get(fp, 1)))
        for fp in sorted(known):
            if fp not in known_hits:
                log("note: known finding %s was not encountered by this run" % fp)
        rdir = os.path.join(os.environ.get("VERIF_REPLAY_DIR", os.path.join(VERIF, "replays")), prop)
        for fp, v in sorted(new_fps.items()):
            os.makedirs(rdir, exist_ok=True)
            h = hashlib.sha1((fp + "|" + v.get("key", "")).encode()).hexdigest()[:12]
            p = os.path.join(rdir, h + ".json")
            v["property"] = prop
            v["tier"] = tier
            with open(p, "w") as f:
                json.dump(v, f, indent=1)
            print("VIOLATION property=%s replay=%s fingerprint=%s cases=%d :: %s" % (prop, p, fp, m["violation_counts"].get(fp, 1), v["summary"][:300]))
            rc = 1
        if failed and rc == 0:
            print("HARNESS-ERROR property=%s: %d shard(s) did not finish (no verdict from them)" % (prop, len(failed)))
            rc = 2
        # evidence
        cov = {
            "evaluations": m["evaluations"],
            "distinct_cases": m["distinct"],
            "distinct_nontrivial": m["distinct_nontrivial"],
            "distinct_outcomes": len(m["outcomes"]),
            "rule": m["extra"].pop("rule", cfg.get("rule", "")),
            "samples": m["samples"],
            "exhaustive": (not m["expired"]) and not failed and bool(m["extra"].pop("exhaustive_within_bound", True)),
            "shards_finished": m["shards"],
            "unreproduced": len(m["unreproduced"]),
            "known_findings_encountered": sorted(known_hits),
            "violation_fingerprints": sorted(new_fps),
        }
        assumptions = m["extra"].pop("assumptions", None) or cfg.get("assumptions", [])
        for k, v in m["counters"].items():
            cov[k] = v
        for k, v in m["extra"].items():
            cov.setdefault(k, v)
        if m["notes"]:
            cov["notes"] = m["notes"]
        if build_notes:
            cov["instrumentation"] = build_notes
        if cfg["level"] == "model_checking":
            cov.setdefault("states", 0)
            cov.setdefault("transitions", 0)
            cov.setdefault("traces_validated_against_impl", 0)
        ev = {
            "property_id": prop, "tier": tier, "seed": seed, "level": cfg["level"], "coverage": cov,
            "assumptions": assumptions, "wall_s": round(time.time() - t0, 2), "violations": len(new_fps),
        }
        os.makedirs(os.path.join(VERIF, "evidence"), exist_ok=True)
        try:
            validate_evidence(ev)
        except Exception as e:  # noqa: BLE001
            log("evidence does not validate: %r" % (e,))
            if rc == 0:
                rc = 2
        evpath = os.path.join(VERIF, "evidence", prop + ".json")
        if os.environ.get("VERIF_NO_EVIDENCE"):
            evpath = os.path.join(scratch, prop + ".evidence.json")
        with open(evpath, "w") as f:
            json.dump(ev, f, indent=1, sort_keys=True)
            f.write("\n")
        log("%s %s: evaluations=%d distinct=%d nontrivial=%d outcomes=%d counters=%s exhaustive=%s wall=%.1fs rc=%d" % (
            prop, tier, m["evaluations"], m["distinct"], m["distinct_nontrivial"], len(m["outcomes"]),
            {k: v for k, v in m["counters"].items()}, cov["exhaustive"], time.time() - t0, rc))
        if cov["distinct_outcomes"] < 2 and rc == 0 and not cfg.get("single_outcome_ok"):
            log("sanity gate: fewer than 2 distinct outcomes — the exploration may be vacuous")
        return rc
    finally:
        if os.environ.get("VERIF_KEEP"):
            log("scratch kept: " + scratch)
        else:
            shutil.rmtree(scratch, ignore_errors=True)


if __name__ == "__main__":
    sys.exit(main(sys.argv))
