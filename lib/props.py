"""Per-property configuration of the driver: which injected test functions make
up a check, in which package/variant they are built, how they are sharded."""

def part(name, pkg, test, **kw):
    d = {"name": name, "pkg": pkg, "test": test}
    d.update(kw)
    return d

PROPS = {
    "C01": {"level": "exploration", "parts": [part("dump", "stack", "TestVerifC01")]},
    "C02": {"level": "model_checking", "parts": [part("bfs", "stack", "TestVerifC02"), part("streams", "stack", "TestVerifC02"),
        part("cli", "internal", "TestVerifC02CLI", needs_pp=True)]},
    "C03": {"level": "exploration", "parts": [part("bfs", "stack", "TestVerifC03"), part("edits", "stack", "TestVerifC03"),
        part("cli", "internal", "TestVerifC03CLI", needs_pp=True)]},
    "C04": {"level": "exploration", "parts": [part("agg", "stack", "TestVerifC04")]},
    "C05": {"level": "exploration", "parts": [part("agg", "stack", "TestVerifC05")]},
    # the thorough tier pushes about 1.1e9 snapshots through Aggregate: give it two hours
    "C13": {"level": "exploration", "parts": [part("order", "stack", "TestVerifC13", deadline_s={"quick": 600, "thorough": 7200})]},
    "C06": {"level": "exploration", "parts": [
        part("mapchoice", "stack", "TestVerifC06", variant="mapchoice"),
        part("aggmap", "stack", "TestVerifC06Agg", variant="mapchoice"),
        part("plain", "stack", "TestVerifC06"),
        part("history", "stack", "TestVerifC06History"),
        part("processes", "stack", "TestVerifC06Processes"),
        part("optsreuse", "stack", "TestVerifC06OptsReuse")]},
    "C07": {"level": "model_checking", "parts": [part("bfs", "stack", "TestVerifC07"), part("streams", "stack", "TestVerifC07"),
                                                 part("cli", "internal", "TestVerifC07CLI", needs_pp=True)]},
    "C08": {"level": "exploration", "parts": [part("race", "stack", "TestVerifC08")]},
    "C09": {"level": "model_checking", "parts": [
        part("a4", "stack", "TestVerifC09", variant="smallbuf-4"),
        part("a8", "stack", "TestVerifC09", variant="smallbuf-8"),
        part("b", "stack", "TestVerifC09", variant="smallbuf-64"),
        part("c", "stack", "TestVerifC09")]},
    "C10": {"level": "fault_enumeration", "parts": [
        part("real", "stack", "TestVerifC10"),
        part("small", "stack", "TestVerifC10", variant="smallbuf-64")]},
    "C11": {"level": "exploration", "parts": [
        part("real", "stack", "TestVerifC11"),
        part("small", "stack", "TestVerifC11", variant="smallbuf-64"),
        part("cli", "internal", "TestVerifC11CLI", needs_pp=True, shards=1),
        part("process", "internal", "TestVerifC11Process")]},
    "C16": {"level": "exploration", "parts": [part("console", "internal", "TestVerifC16", needs_pp=True)]},
    "C14": {"level": "model_checking", "parts": [
        part("history", "stack", "TestVerifC14"),
        part("race", "stack", "TestVerifC14", race=True, gomaxprocs=4, shards=8)]},
    "C20": {"level": "exploration", "parts": [
        part("live", "stack/webstack", "TestVerifC20"),
        part("churn", "stack/webstack", "TestVerifC20", race=True, gomaxprocs=8, shards=1, thorough_only=True)]},
    "C19": {"level": "exploration", "parts": [part("programs", "stack", "TestVerifC19", shards=1, gomaxprocs=8)]},
    "C18": {"level": "exploration", "parts": [part("layouts", "stack", "TestVerifC18")]},
    "C17": {"level": "exploration", "parts": [part("html", "stack", "TestVerifC17"), part("cli", "internal", "TestVerifC17CLI", needs_pp=True)]},
    "C15": {"level": "exploration", "parts": [part("names", "stack", "TestVerifC15")]},
    "C12": {"level": "exploration", "parts": [part("agg", "stack", "TestVerifC12")]},
}

# plain replays of repaired defects, attached to the property that found them
for _p in ("C01", "C02", "C03", "C06", "C07", "C17", "C18", "C19"):
    PROPS[_p]["parts"].append(part("regress", "stack", "TestVerifRegress", shards=1))
