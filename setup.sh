#!/bin/sh
# setup_cmd: offline; warms the private GOCACHE by building the harness once
# (plain and -race) and builds the instrumentation tool.
set -e
cd "$(dirname "$0")"
export GOFLAGS=-mod=mod GOPROXY=off GOSUMDB=off GOTOOLCHAIN=local
mkdir -p .cache/go-build evidence replays
python3 lib/driver.py --warm
